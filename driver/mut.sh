#!/bin/bash
# usage: driver/mut.sh <prop[,prop...]> <patchfile | -e 'sed-expr' file> [--tier t]  : run checks against a scratch copy of /repo with a mutation
set -u
props=$1; shift
D=$(mktemp -d /tmp/sxmut.XXXXXX)
rsync -a --exclude .git /repo/ "$D"/
if [ "$1" = "-e" ]; then
  sed -i -E "$2" "$D/$3" || exit 3
  if diff -q "$D/$3" "/repo/$3" >/dev/null; then echo "MUTATION DID NOT CHANGE FILE"; rm -rf "$D"; exit 3; fi
  shift 3
elif [ "$1" = "-p" ]; then
  perl -0pi -e "$2" "$D/$3" || exit 3
  if diff -q "$D/$3" "/repo/$3" >/dev/null; then echo "MUTATION DID NOT CHANGE FILE"; rm -rf "$D"; exit 3; fi
  shift 3
else
  (cd "$D" && patch -p1 -s < "$1") || { echo "PATCH FAILED"; rm -rf "$D"; exit 3; }
  shift 1
fi
rc=0
for p in ${props//,/ }; do
  VERIF_REPO=$D /verif/check "$p" "$@" 2>&1 | grep -E "^(OK|VIOLATION|INFRA|KNOWN)|violated" | head -5
done
rm -rf "$D"
