#!/usr/bin/env python3
"""Sensitivity runs: apply each hand-written mutant (driver/mutants.json) or seeded change (seeded/<id>/patch.diff)
to a scratch copy of /repo and run the listed checks against it.
  driver/mutants.py [--only NAME_SUBSTR] [--props C01,C02] [--tier quick] [--jobs 4] [--tests] [--seeded]
Prints one line per (mutant, property): CAUGHT / MISSED / INVALID(build) and writes build/mutants-result.json."""
import concurrent.futures as cf, json, os, re, shutil, subprocess, sys, tempfile

VERIF = os.path.dirname(os.path.dirname(os.path.abspath(__file__)))
sys.path.insert(0, os.path.join(VERIF, "driver"))
from props import PROPS  # noqa: E402
ENV = dict(os.environ, GOFLAGS="-mod=mod", GOPROXY="off", GOSUMDB="off", GOTOOLCHAIN="local")

def apply(m, d):
    if m.get("patch"):
        p = subprocess.run(["patch", "-p1", "-s", "-i", os.path.join(VERIF, m["patch"])], cwd=d, capture_output=True, text=True)
        return p.returncode == 0, p.stdout + p.stderr
    f = os.path.join(d, m["file"])
    before = open(f).read()
    if m.get("perl"):
        subprocess.run(["perl", "-0pi", "-e", m["perl"], f], check=False)
    else:
        subprocess.run(["sed", "-i", "-E", m["sed"], f], check=False)
    return open(f).read() != before, "expression did not change the file"

def run_one(m, props, tier, run_tests):
    d = tempfile.mkdtemp(prefix="sxmut.", dir="/tmp")
    out = []
    try:
        subprocess.run(["rsync", "-a", "--exclude", ".git", "/repo/", d + "/"], check=True)
        ok, msg = apply(m, d)
        if not ok:
            return [(m["name"], "-", "INVALID", msg.strip()[:200])]
        if run_tests:
            p = subprocess.run(["go", "test", "-vet=off", "-count=1", "./..."], cwd=d, env=ENV, capture_output=True, text=True)
            if p.returncode != 0:
                return [(m["name"], "-", "INVALID", "existing tests fail or build breaks: " + (p.stdout + p.stderr)[-300:].replace("\n", " | "))]
        for pid in props:
            p = subprocess.run([os.path.join(VERIF, "check"), pid, "--tier", tier], env=dict(os.environ, VERIF_REPO=d),
                               capture_output=True, text=True)
            txt = p.stdout + p.stderr
            if p.returncode == 1 and "VIOLATION property=" in txt:
                mm = re.search(r"property \w+ violated[^:]*: (.*)", txt)
                out.append((m["name"], pid, "CAUGHT", (mm.group(1) if mm else "")[:160]))
            elif p.returncode == 0:
                out.append((m["name"], pid, "MISSED", ""))
            else:
                out.append((m["name"], pid, "INFRA", txt[-300:].replace("\n", " | ")))
    finally:
        shutil.rmtree(d, ignore_errors=True)
    return out

def main():
    a = sys.argv[1:]
    only = props_f = None
    tier, jobs, run_tests, seeded = "quick", 3, False, False
    i = 0
    while i < len(a):
        if a[i] == "--only": only = a[i+1]; i += 2
        elif a[i] == "--props": props_f = set(a[i+1].split(",")); i += 2
        elif a[i] == "--tier": tier = a[i+1]; i += 2
        elif a[i] == "--jobs": jobs = int(a[i+1]); i += 2
        elif a[i] == "--tests": run_tests = True; i += 1
        elif a[i] == "--seeded": seeded = True; i += 1
        else: sys.exit("bad arg " + a[i])
    muts = []
    if seeded:
        sd = os.path.join(VERIF, "seeded")
        for n in sorted(os.listdir(sd)) if os.path.isdir(sd) else []:
            meta = json.load(open(os.path.join(sd, n, "meta.json")))
            muts.append({"name": "seeded/" + n, "props": meta["checks"] if "checks" in meta else [meta["property"]],
                         "patch": os.path.join("seeded", n, "patch.diff")})
    else:
        muts = json.load(open(os.path.join(VERIF, "driver", "mutants.json")))
    sel = []
    for m in muts:
        if only and only not in m["name"]:
            continue
        props = [p for p in m["props"] if (not props_f or p in props_f) and p in PROPS]
        if props:
            sel.append((m, props))
    results = []
    with cf.ThreadPoolExecutor(max_workers=jobs) as ex:
        for res in ex.map(lambda mp: run_one(mp[0], mp[1], tier, run_tests), sel):
            for r in res:
                print("%-8s %-4s %-55s %s" % (r[2], r[1], r[0], r[3]), flush=True)
                results.append(r)
    os.makedirs(os.path.join(VERIF, "build"), exist_ok=True)
    json.dump(results, open(os.path.join(VERIF, "build", "mutants-result.json"), "w"), indent=1)
    import time
    head = subprocess.run(["git", "-C", "/repo", "rev-parse", "--short", "HEAD"], capture_output=True, text=True).stdout.strip()
    with open(os.path.join(VERIF, "driver", "sensitivity-log.jsonl"), "a") as f:
        for r in results:
            f.write(json.dumps({"name": r[0], "prop": r[1], "status": r[2], "detail": r[3], "tier": tier, "repo": head, "at": int(time.time())}) + "\n")
    missed = [r for r in results if r[2] == "MISSED"]
    print("%d runs: %d caught, %d missed, %d other" % (len(results), sum(r[2] == "CAUGHT" for r in results), len(missed),
                                                        sum(r[2] not in ("CAUGHT", "MISSED") for r in results)))

main()
