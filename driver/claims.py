"""Texts of the claims per property (what MANIFEST.json says)."""
ENGINES = [
    {"name": "E1-package-pbt", "path": "/verif/props",
     "serves_properties": ["C04", "C05", "C06", "C07", "C08", "C09", "C10", "C14", "C18", "C20"],
     "kind_free_text": "in-package rapid properties compiled into /repo's packages through -overlay/-modfile (no file of /repo is changed)"},
    {"name": "E2-cmdwire", "path": "/verif/props/command/zz_verif_cmdwire_test.go",
     "serves_properties": ["C01", "C02", "C03", "C11", "C12", "C13", "C15", "C16", "C19"],
     "kind_free_text": "full cobra commands (newRootCmd().Execute()) run in-process on a virtual wire that replaces only pkg/packet/afpacket/readwriter.go and runs the exact BPF text sx installs in the x/net/bpf VM"},
    {"name": "E3-netns", "path": "/verif/kit/cmd/nsrun",
     "serves_properties": ["C17"],
     "kind_free_text": "the real sx binary on real AF_PACKET sockets inside generated network namespaces (veth pairs, tun devices, routes)"},
]
NOTES = ("All checks are generated-input searches (pgregory.net/rapid; native fuzzing in some thorough tiers) with explicit oracles from "
         "/verif/kit, which imports neither sx nor gopacket. Build: ./check regenerates modfile+overlay from /repo's working tree on every run; "
         "exit 2 = infrastructure problem (inconclusive), never a verdict.")


def _c(engine, technique, text, note, ref):
    return {"engine": engine, "technique": technique, "text": text, "note": note, "design_ref": "DESIGN.md §2 " + ref}


CLAIMS = {
 "C01": _c("E2-cmdwire",
   "property-based testing: generated target specifications through full commands on a virtual wire, multiset equality with an independent denotation",
   "Exploration. Every packet-scan command is executed end to end (real flag parsing, generator choice, chunking) on a virtual wire with generated specifications "
   "(CIDR any base /32../22 x port-range lists incl. >200 ranges, pair files, address files x ports from file or stdin, exclusions, both link modes, drawn rand seed); "
   "the multiset of probes decoded from the written frames must equal an independently computed denotation. Application scans: the calls a recording Scanner receives "
   "after real option parsing, and full socks runs against loopback listeners. Generator level up to 2^23 products (thorough: one /8 and one /5 pass by bitmap). "
   "Sampling, not proof: wider subnets rest on C04 plus the index->address arithmetic.",
   "trusts verifkit/gram (denotation), verifkit/wire (decoder), the virtual wire as a model of the AF_PACKET adapter; interface pinned to lo", "C01"),
 "C02": _c("E2-cmdwire",
   "property-based testing: grammar-generated target strings against a reference IPv4 recogniser at parser and command level; exclusion lists against prefix-match membership",
   "Exploration. Target strings drawn from a grammar (IPv4, CIDR, every IPv6 form incl. mapped and CIDR with all host widths, garbage) are given to ip.ParseIPNet and as the "
   "positional argument of every command: not-IPv4 => error, no socket, no frame, no crash; IPv4 => probes are exactly the denotation. Exclusion: generated (target, exclusion file) "
   "pairs, oracle = prefix membership, both directions (no probe inside, nothing else removed), boundary addresses forced into the target.",
   "trusts gram.RefIPv4Target as the definition of 'IPv4 target'; application scans are judged at option-parsing level", "C02"),
 "C03": _c("E2-cmdwire",
   "property-based testing: generated traffic scripts against full commands on a virtual wire running the installed BPF text; independent reply-shape classifier as oracle",
   "Exploration. For each packet-scan command and CLI mode a generated traffic script (reply-shaped frames and every near miss: subnet edges, port-range edges, all flag sets, "
   "options, ICMP types, foreign protocols, IPv6, IP-in-IP, VLAN) is injected while the scan runs; the JSON records on stdout must equal, as a multiset, one record per frame "
   "that an independent classifier calls reply-shaped. Because the virtual wire executes the very filter text sx installs, filter o processor o per-chunk wiring is what is tested. "
   "The same oracle also runs against the REAL binary in network namespaces (kernel BPF, real AF_PACKET adapter; frames injected on the far end of a veth / into a tun device), "
   "including a long quiet scan followed by one late reply, and against bursts of 500..6000 distinct replies with a slow consumer of stdout (exactly one record per frame under back-pressure).",
   "trusts verifkit/shape + wire; x/net/bpf VM + libpcap compile as the kernel's filter semantics; fragments are out of scope of the statement", "C03"),
 "C04": _c("E1-package-pbt",
   "property-based testing: bitmap permutation oracle on generated sizes/seeds + exhaustive number-theoretic check of the 32-row table with generated draws",
   "Exploration: full walks of the iterator against a bitmap for generated n (quick n<=2^20, thorough n<=2^24 plus one full walk for n=2^17..2^32 and P-1 of the last rows), "
   "and for all 32 rows x generated 63-bit draws an independent math/big check that the derived generator has order P-1; rejection of sizes outside 1..2^32+60. Not a proof: draws are sampled.",
   "trusts math/big, trial division, the bitmap; rand.Seed-driven draws are a subset of the 2^126 draw pairs", "C04"),
 "C05": _c("E1-package-pbt",
   "property-based testing: generated requests/options through the four real fillers, frames decoded by an independent decoder with recomputed checksums",
   "Exploration. Generated requests and filler options (all 512 TCP flag sets every run, TTL, IP flags, type/code, overrides, payload lengths incl. odd/empty, both link modes) "
   "through the real arp/icmp/tcp/udp fillers; every field must decode back with an independent decoder, checksums are recomputed, VPN frame = Ethernet frame minus 14 bytes, "
   "spoofed fields stay in range over 10^5 fills per case. One filler shared by 1..32 goroutines (-race): every frame judged against its own request. "
   "Full commands: the frame written for --flags/--ttl/--ipflags/--ipproto/--iplen/--payload/--type/--code (incl. repeated flag names, bytes >= 0x80) decodes to the requested fields.",
   "trusts verifkit/wire (hand-written decoder, RFC 1071)", "C05"),
 "C06": _c("E1-package-pbt",
   "property-based testing: structured frame-mutation sequences through one processor instance; oracle = independent strict decoder (necessary conditions for a record)",
   "Exploration. Sequences of 1..12 generated frames (valid frames, then truncation at every offset, length/IHL/offset/address-size overrides, nested IPv4, fragments, exact-capacity slices) "
   "through one tcp/icmp/udp/arp processor instance in both link modes, each frame in fresh memory or all in one reused slot (zero-copy ring), incl. Ethernet-in-Ethernet and datagrams ending inside the transport header or non-first fragments, plain and nested; native fuzz targets in the thorough tier: no panic, at most one record per frame, a record only if this frame itself carries the header chain, every field equal to this frame's bytes.",
   "necessary conditions only (a record is never demanded); IPv4 version nibble other than 4 is not judged", "C06"),
 "C07": _c("E1-package-pbt",
   "property-based testing under the race detector: generated request streams with injected failures through the real pipeline stages, multiset oracle",
   "Exploration. Request streams (0..3000, errors at drawn positions) through the real generator/multigenerator/merger/sender assembled as SetupPacketEngine does, with recording filler and writer "
   "(fail, delay, snapshot at entry and exit); written multiset = built multiset byte for byte, error multiset exact, done only after the last write; -race, GOMAXPROCS 1/2/4/16.",
   "schedules are sampled, not enumerated; a failure that needs one specific interleaving can be missed", "C07"),
 "C08": _c("E1-package-pbt",
   "property-based testing under the race detector: generated target files and per-target outcomes through the real application engine, exactly-once multiset oracle",
   "Exploration. Generated targets with drawn outcome/latency per target through scan.NewScanEngine + ResultChan + real JSON logger via startScanEngine, workers 1..1000, limiter on/off: "
   "Scan calls = error-free requests exactly once, stdout lines = positives, error records = failures, nothing in flight when done closes, all printed before return; -race. Also: a tail of slow positive probes (scan outlasts the exit delay), a slow error sink, and the error records of full commands counted on stderr (0..3000 failures).",
   "schedules sampled; error records observed at Logger.Error", "C08"),
 "C14": _c("E1-package-pbt",
   "property-based testing: generated result sequences with hostile strings through the real JSON logger, decode-back oracle and de-duplication model",
   "Exploration. Sequences of results of every type with hostile strings (quotes, control characters, U+2028, invalid UTF-8, long values, nested maps) through log.NewLogger(JSON) and NewUniqueLogger: "
   "one line per result in order, each decodes with encoding/json to the result's fields; unique logger = first occurrences by ID.",
   "trusts encoding/json's decoder as the inverse; invalid UTF-8 compares as U+FFFD", "C14"),
 "C18": _c("E1-package-pbt",
   "property-based testing: render->parse round trips of generated values and reference-grammar differential on mutated/arbitrary strings",
   "Exploration. For every option parser: canonical renderings of generated values parse back to the value (flag subsets exhaustive), and near-grammar/arbitrary strings are either refused or "
   "accepted with exactly the reference grammar's value; no panic; over-long lines in files are errors. Command level: the same strings as CLI arguments - refused => the command fails before any frame, accepted => the frames carry exactly the denoted ports / flag bits / payload / exclusions. Native fuzz targets (ports, rate, flags, exclusion file) in the thorough tier.",
   "trusts verifkit/gram reference grammars and time.ParseDuration", "C18"),
 "C20": _c("E1-package-pbt",
   "fault enumeration: bounded-exhaustive read-outcome scripts + random long scripts against a reference state machine",
   "Fault enumeration. All read-outcome sequences over {frame, failing frame, EAGAIN, timeout, ECONNRESET, unknown} up to a bound followed by each terminal, each with cancellation at every position "
   "(exhaustive within the bound), then random scripts to length 300 with bursts; processed frames and error stream must equal the reference machine's.",
   "read outcomes are the bare values gopacket returns; io.ErrNoProgress/ErrShortBuffer not generated", "C20"),
 "C13": _c("E2-cmdwire",
   "property-based testing: generated JSONL target lists with offending lines at drawn positions through the real generator stacks and full commands; reference line model (stop-or-skip) as oracle",
   "Exploration. Target lists mixing valid entries with every kind of offending line (missing/ill-typed/unparseable address, ports 0/65536/negative/huge, broken JSON, blank, >64 KiB, IPv6) at drawn positions, "
   "in pairs and addresses-x-ports mode, with/without --exclude, with/without ARP cache and gateway MAC. E1: the ordered request stream of the exact stacks the commands build is matched against a reference line model "
   "(entries before the line handled normally, exactly one error stating the cause and no probe, then stop or continue as if absent; neighbours unchanged; errors.Is on the cause). "
   "E2: full tcp/udp/icmp commands - frames per port and error records on stderr obey the same model, destination MAC per frame.",
   "trusts verifkit/gram/lines.go as the definition of 'cannot become a probe' and of acceptable causes; ill-typed port in addresses mode not generated", "C13"),
 "C11": _c("E2-cmdwire",
   "property-based testing: round trip ARP frame -> real scan method -> JSON logger -> cache loader -> destination MAC of later probes; generated cache files and request streams with concurrent readers under the race detector",
   "Exploration. (a) generated ARP frames (all-zero/broadcast MACs, OUIs whose vendor strings need escaping, repeated addresses) through the real arp.ScanMethod and JSON logger; the output must be accepted by arp.FillCache and map each address to the MAC of its last line (4- and 16-byte lookups). "
   "(b) generated cache files (duplicates, ::ffff: spellings, upper-case MACs, extra fields) and request streams resolved by 1..32 concurrent readers: own entry, else gateway, else error - never another host's MAC. "
   "(c) pipeline of two full commands on the virtual wire: sx arp --json answered by generated hosts, its stdout used as -a file / stdin of tcp/udp/icmp; Ethernet destination of every probe judged per frame.",
   "trusts encoding/json as the decoder of printed lines; schedules sampled (race detector, GOMAXPROCS varied)", "C11"),
 "C15": _c("E2-cmdwire",
   "property-based testing: call algebra with a counting limiter; one-sided timing bounds on frame/probe start times of full commands with generated --rate values",
   "Exploration. (1) operation sequences on the rate-limited read/writer and concurrent probes through the rate-limited scanner with a counting limiter: one Take immediately before every write/scan, none for reads. "
   "(2) full packet-scan commands with generated --rate N[/W]: for all i<j on a socket t_j - t_i >= (j-i-12)W/N (lower bound only, monotonic clock, derived from the limiter's recurrence). "
   "(3) application scans: same bound on probe start times (+ worker count for observation skew), and a stall scenario (whole worker pool held, then released) where the m-th probe after release may not start before release + (m-12)W/N whatever the worker count. "
   "(4) with 1/300ms, replies arriving after probe 1 are all read before probe 3 is written.",
   "lower bounds only - a slow machine cannot raise an alarm; the limiter library's slack of 10 is taken from its source (v0.2.0)", "C15"),
 "C16": _c("E2-cmdwire",
   "property-based testing: full commands on the virtual wire with a reply-shaped frame injected within the exit delay after the last probe of every chunk; one-sided timing bounds",
   "Exploration. Every packet-scan command (both link modes, 1..3 chunks, optionally a rate-limited send phase longer than the delay) with --exit-delay 80..1200 ms: a reply arriving at u*delay (u<=0.5) after the last probe of each chunk must be delivered and reported, "
   "each chunk's socket stays open >= delay after its last probe, Execute() returns >= delay and <= delay+10 s after the last probe, all lines complete. Application scans: flag parsing + startScanEngine with timed probes, and the full command against a closed loopback port.",
   "lower bounds one-sided on the monotonic clock; the virtual wire's close time stands for the kernel socket's", "C16"),
 "C19": _c("E2-cmdwire",
   "property-based testing: generated subnets / scripted delegates / cancel points through the live request generator with delegate-side timestamps; arp --live commands interrupted by SIGINT",
   "Exploration. scan.NewLiveRequestGenerator over the real IP request generator (+exclusion filter) or a scripted delegate (varying pass sizes, a pass - or all later passes - failing to start), prompt or slow consumer, cancellation inside a pass or in the wait: "
   "consecutive passes each cover the target exactly once, next pass started >= interval after the previous one was drained (one-sided), passes keep coming, the stream ends after cancel, no crash / end of stream / busy loop on a failed pass. "
   "Command level: sx arp --live on the virtual wire until SIGINT - per-target counts floor/ceil, first probe of pass k not before start+(k-1)*interval, each answering host printed once.",
   "whether passes resume after a failed one is a don't-care; command-level coverage judged by counts (pipeline may reorder)", "C19"),
 "C12": _c("E2-cmdwire",
   "fault enumeration over cancel points: synchronous cancellation at the k-th probe/record/error of the application engine, and the real SIGINT after every k-th frame of packet commands; oracle = returns, streams end, no crash, complete lines",
   "Fault enumeration. Application engine as the commands assemble it, with generated outcomes (incl. probes in flight at the cancel that then fail or report), 1..1000 workers, up to 3000 targets, slow consumer: the parent context is cancelled at an exact event (before start, k-th probe start, k-th record written, k-th error logged, inside an exit delay of 30 ms..10 min). "
   "Packet commands on the virtual wire: for one generated scenario SIGINT after EVERY frame k = 0..total and inside a 10-minute exit delay. Socks command against stalling servers. Application engine over a huge target space (/0../9 x up to 65535 ports) cancelled inside an early probe. Oracle: the call returns within 30 s (goroutine dump otherwise), result stream closed, nothing written after the return (in-stream marker), complete JSON lines, process alive under -race.",
   "k is enumerated completely per scenario, scenarios are sampled; leaked goroutines that do not block the call are not judged", "C12"),
 "C09": _c("E1-package-pbt",
   "fault enumeration: scripted loopback TCP servers (all two-byte replies; every fault at every protocol step) against the real scanner; decision-table and deadline oracle",
   "Fault enumeration. The real socks5.Scanner against scripted servers in 127.0.0.0/8: refuse, full accept queue (dial timeout), close/reset at once, replies whole or split into segments (pauses <= T/4) sent before or after reading the greeting, then stall / close / reset / flood; optional cancellation. "
   "All two-byte replies (quick: both axes through 05 00 plus a sample; thorough: all 65536, exhaustive). Oracle: a record only if the first two bytes sent are 05 00, with the probed ip/port; demanded when delivery is certain; greeting seen = 05 01 00; elapsed <= connect + 3 x data timeout + 3 s; prompt end after cancel. "
   "Command level: sx socks --timeout T ends within 4T + exit delay + 1 s against non-accepting / stalling servers.",
   "loopback stands for the network; nothing is placed within a factor 4 of a deadline; upper bounds carry seconds of slack (jitter-gated at command level)", "C09"),
 "C10": _c("E1-package-pbt",
   "fault enumeration: socket-level scripted HTTP/HTTPS servers (status x framing x body kind x fault per request path) against the real scanners; reference = 'body is a JSON object' + deadlines",
   "Fault enumeration. The real elastic and docker scanners over http and https against a scripted raw-socket server, one independent script per request path (/, /_aliases; /_ping, /info, /version): statuses, three framings, object / array / scalar / truncated / HTML / empty / 1 MiB / endless bodies, stalls before headers or mid-body, close, reset. "
   "Oracle: elastic record <=> GET / delivered a complete object; docker record <=> /info 2xx with a complete object and negotiation not hung; host, port, scheme, info/indexes/version equal what was served; secondary failures never suppress; no record => error; elapsed <= timeouts + 3 s. Commands: --proto/--timeout wiring. "
   "One known finding (docker, null body) is excluded by construction and re-confirmed on every run.",
   "loopback stands for the network; redirects/1xx/204/304 not generated; encoding/json defines 'object'", "C10"),
 "C17": _c("E3-netns",
   "property-based testing: generated network namespaces (veth pairs, tun device, addresses, default routes) x generated invocations of the real sx binary; frames captured on every interface; oracle = validity predicate of the selection rule",
   "Exploration. The real sx binary on real AF_PACKET sockets inside fresh network namespaces built from generated configurations (1..3 veth pairs + optional MAC-less tun device, 0..3 IPv4 networks per interface incl. overlapping ones and IPv6-only interfaces, 0..3 default routes with metrics incl. ties, via gateway or device routes) and generated invocations (arp/icmp/tcp/udp, target attached or not, any subset of --iface/--srcip/--srcmac). "
   "Every frame leaving any interface is captured; a reference model of the selection rule decides the admissible (interface, source address, source MAC, framing) combinations, or that the scan must fail with an error and send nothing.",
   "veth and tun only (no dummy/vlan/tunnel devices in this kernel, no policy routing); configuration judged as the kernel reports it; exit 2 if unshare is refused", "C17"),
}

# properties not (yet) claimed
NOT_APPLICABLE = {}
for _p in ["C%02d" % i for i in range(1, 21)]:
    NOT_APPLICABLE[_p] = "check under construction in this session (the technique applies; see DESIGN.md)"
