"""Texts of the claims per property (what MANIFEST.json says)."""
PBT = "property-based testing (pgregory.net/rapid) against an explicit independent oracle"
ENGINES = [
    {"name": "E1-package-pbt", "path": "/verif/props", "serves_properties": [],
     "kind_free_text": "in-package rapid properties compiled into /repo's packages through -overlay/-modfile (no file of /repo is changed)"},
]
NOTES = ("All checks are generated-input searches (rapid / native fuzzing) with explicit oracles from /verif/kit, which imports "
         "neither sx nor gopacket. Build: ./check regenerates modfile+overlay from /repo's working tree on every run.")
CLAIMS = {
 "C05": {"engine": "E1-package-pbt", "technique": "property-based testing: generated requests/options, frames decoded by an independent decoder with recomputed checksums", "design_ref": "DESIGN.md §2 C05", "text": "x", "note": "y"},
 "C18": {"engine": "E1-package-pbt", "technique": "property-based testing: render->parse round trips of generated values and reference-grammar differential on mutated/arbitrary strings", "design_ref": "DESIGN.md §2 C18", "text": "x", "note": "y"},
 "C20": {"engine": "E1-package-pbt", "technique": "fault enumeration: bounded-exhaustive read-outcome scripts + random long scripts against a reference state machine", "design_ref": "DESIGN.md §2 C20", "text": "x", "note": "y"},
 "C14": {"engine": "E1-package-pbt", "technique": "property-based testing: generated result sequences with hostile strings through the real JSON logger, decode-back oracle and de-duplication model", "design_ref": "DESIGN.md §2 C14", "text": "x", "note": "y"},
 "C06": {"engine": "E1-package-pbt", "technique": "property-based testing: structured frame mutation sequences through one processor instance; native fuzzing in the thorough tier; oracle = independent decoder", "design_ref": "DESIGN.md §2 C06", "text": "x", "note": "y"},
 "C07": {"engine": "E1-package-pbt", "technique": "property-based testing under the race detector: generated request streams with injected failures through the real pipeline stages, multiset oracle", "design_ref": "DESIGN.md §2 C07", "text": "x", "note": "y"},
 "C08": {"engine": "E1-package-pbt", "technique": "property-based testing under the race detector: generated target files and per-target outcomes through the real application engine, exactly-once multiset oracle", "design_ref": "DESIGN.md §2 C08", "text": "x", "note": "y"},
 "C01": {"engine": "E2-cmdwire", "technique": "property-based testing: generated target specifications through full commands on a virtual wire, multiset equality with an independent denotation", "design_ref": "DESIGN.md §2 C01", "text": "x", "note": "y"},
 "C02": {"engine": "E2-cmdwire", "technique": "property-based testing: grammar-generated target strings against a reference IPv4 recogniser at parser and command level; exclusion lists against prefix-match membership", "design_ref": "DESIGN.md §2 C02", "text": "x", "note": "y"},
 "C03": {"engine": "E2-cmdwire", "technique": "property-based testing: generated traffic scripts against full commands on a virtual wire running the installed BPF text; independent reply-shape classifier as oracle", "design_ref": "DESIGN.md §2 C03", "text": "x", "note": "y"},
 "C04": {
  "engine": "E1-package-pbt",
  "technique": "property-based testing: bitmap permutation oracle on generated sizes/seeds + exhaustive number-theoretic check of the 32-row table with generated draws",
  "design_ref": "DESIGN.md §2 C04",
  "text": "Exploration: full walks of the iterator against a bitmap for generated n (quick n<=2^20, thorough n<=2^24 plus one full walk for n=2^17..2^32 and P-1 of the last rows), and for all 32 rows x generated 63-bit draws an independent math/big check that the derived generator has order P-1; rejection of sizes outside 1..2^32+60. Not a proof: draws are sampled.",
  "note": "trusts math/big, trial division, the bitmap; rand.Seed-driven draws are a subset of the 2^126 draw pairs",
 },
}
# properties not (yet) claimed
NOT_APPLICABLE = {}
for _p in ["C%02d" % i for i in range(1, 21)]:
    NOT_APPLICABLE[_p] = "check under construction in this session (the technique applies; see DESIGN.md)"
