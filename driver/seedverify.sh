#!/bin/bash
# usage: driver/seedverify.sh <dir with patch.diff + demo> <demo file name> <package dir for the demo, relative> [demo run regex]
# Confirms in a scratch worktree of /repo (HEAD): with the patch - builds, the whole existing suite passes, the demo fails;
# without the patch - the demo passes. Prints CONFIRMED or the reason it is not.
set -u
src=$1; demo=$2; pkg=$3; re=${4:-.}
# SEED_WRAP="unshare -n" runs the demo inside a fresh network namespace (demos that build veth pairs)
wrap=${SEED_WRAP:-}
export GOFLAGS=-mod=mod GOPROXY=off GOSUMDB=off GOTOOLCHAIN=local
wt=$(mktemp -d /tmp/seedverify.XXXXXX); rmdir "$wt"
git -C /repo worktree add -q --detach "$wt" HEAD || exit 3
cleanup() { git -C /repo worktree remove --force "$wt" >/dev/null 2>&1; rm -rf "$wt"; }
trap cleanup EXIT
cd "$wt"
git apply --check "$src/patch.diff" || { echo "NOT-CONFIRMED: patch does not apply at HEAD"; exit 1; }
git apply "$src/patch.diff"
go build ./... || { echo "NOT-CONFIRMED: build fails"; exit 1; }
if ! go test -vet=off -count=1 ./... > /tmp/seedverify.$$.log 2>&1; then echo "NOT-CONFIRMED: existing suite fails with the patch"; tail -20 /tmp/seedverify.$$.log; rm -f /tmp/seedverify.$$.log; exit 1; fi
rm -f /tmp/seedverify.$$.log
cp "$src/$demo" "$pkg/"
if $wrap go test -vet=off -count=1 -run "$re" "./$pkg" > /tmp/seedverify.$$.with 2>&1; then echo "NOT-CONFIRMED: demo passes WITH the patch"; rm -f /tmp/seedverify.$$.with; exit 1; fi
grep -E "^(--- FAIL|FAIL|panic)" /tmp/seedverify.$$.with | head -3
rm -f /tmp/seedverify.$$.with
git apply -R "$src/patch.diff"
for i in 1 2 3; do
  if ! $wrap go test -vet=off -count=1 -run "$re" "./$pkg" > /tmp/seedverify.$$.without 2>&1; then echo "NOT-CONFIRMED: demo fails WITHOUT the patch"; tail -15 /tmp/seedverify.$$.without; rm -f /tmp/seedverify.$$.without; exit 1; fi
done
rm -f /tmp/seedverify.$$.without
echo "CONFIRMED: $src (suite passes with patch, demo fails with it and passes 3x without)"
