#!/usr/bin/env python3
"""Add every delivered seed of one round: driver/seedauto.py <outdir, e.g. /tmp/seedout4> <round tag, e.g. r4> [PROP ...]
For each <outdir>/<PROP>/<k>/ (patch.diff + one *_test.go + README.md) it derives the package directory from the demo's
package clause, a slug from the README title and the 'needs' text from its Trigger paragraph, then calls seedadd.py."""
import os, re, subprocess, sys
V = os.path.dirname(os.path.dirname(os.path.abspath(__file__)))
PKG = {"command": "command", "log": "command/log", "scan": "pkg/scan", "packet": "pkg/packet", "afpacket": "pkg/packet/afpacket", "ip": "pkg/ip",
       "arp": "pkg/scan/arp", "icmp": "pkg/scan/icmp", "tcp": "pkg/scan/tcp", "udp": "pkg/scan/udp", "socks5": "pkg/scan/socks5",
       "docker": "pkg/scan/docker", "elastic": "pkg/scan/elastic"}
out, tag = sys.argv[1], sys.argv[2]
props = sys.argv[3:] or sorted(os.listdir(out))
for prop in props:
    for k in sorted(os.listdir(os.path.join(out, prop))):
        d = os.path.join(out, prop, k)
        if not os.path.isfile(os.path.join(d, "patch.diff")):
            continue
        demos = [f for f in os.listdir(d) if f.endswith("_test.go")]
        if len(demos) != 1:
            print("SKIP %s: %d demo files" % (d, len(demos))); continue
        src = open(os.path.join(d, demos[0])).read()
        m = re.search(r"^package (\w+)", src, re.M)
        pk = re.sub(r"_test$", "", m.group(1)) if m else ""
        readme = open(os.path.join(d, "README.md")).read() if os.path.exists(os.path.join(d, "README.md")) else ""
        mm = re.search(r"(?:copy|copied|goes|go) (?:it )?(?:in)?to `?([a-z0-9/_]+?)/?`", readme)
        pkgdir = PKG.get(pk) or (mm.group(1) if mm else None)
        if mm and mm.group(1).rstrip("/") in PKG.values():
            pkgdir = mm.group(1).rstrip("/")
        if not pkgdir:
            print("SKIP %s: package %r unknown" % (d, pk)); continue
        title = (re.search(r"^#+\s*(.+)$", readme, re.M) or [None, demos[0]])[1]
        title = re.sub(r"^(C\d\d\s*[/,-]?\s*)?(change|seed|round)\s*\d*\s*[-:–—]*\s*", "", title, flags=re.I)
        slug = "%s-%s-%s" % (tag, k, re.sub(r"[^a-z0-9]+", "-", title.lower()).strip("-")[:48].strip("-"))
        tr = re.search(r"\*?\*?Trigger[^\n:]*:\*?\*?\s*(.+?)(?:\n\s*\n|\n[-*] \*\*|\n#)", readme, re.S | re.I)
        needs = re.sub(r"\s+", " ", tr.group(1)).strip()[:300] if tr else title
        wrap = "unshare -n" if re.search(r"unshare -n|network namespace|netns", readme) and "CLONE_NEWNET" not in src and "re-exec" not in readme.lower() else ""
        env = dict(os.environ, SEED_WRAP=wrap)
        tests = re.findall(r"^func (Test\w+)\(", src, re.M)
        runre = "^(" + "|".join(tests) + ")$" if tests else "."
        p = subprocess.run([sys.executable, os.path.join(V, "driver", "seedadd.py"), prop, d, slug, demos[0], pkgdir, needs, "--run", runre], capture_output=True, text=True, env=env)
        ok = "kept" in p.stdout
        print("%s %s/%s -> %s [%s] %s" % ("OK  " if ok else "FAIL", prop, k, slug, pkgdir, "" if ok else (p.stdout + p.stderr)[-400:].replace("\n", " | ")))
