#!/usr/bin/env python3
"""Confirm a seeded change (driver/seedverify.sh) and keep it as /verif/seeded/<prop>-<k>-<slug>/.
usage: seedadd.py <prop> <srcdir> <slug> <demo file> <package dir> "<what it needs to manifest>" [--checks C01,C04] [--run REGEX]"""
import json, os, shutil, subprocess, sys
V = os.path.dirname(os.path.dirname(os.path.abspath(__file__)))
a = sys.argv[1:]
prop, src, slug, demo, pkg, needs = a[:6]
checks, runre = [prop], "."
i = 6
while i < len(a):
    if a[i] == "--checks": checks = a[i+1].split(","); i += 2
    elif a[i] == "--run": runre = a[i+1]; i += 2
    else: sys.exit("bad arg")
p = subprocess.run([os.path.join(V, "driver", "seedverify.sh"), src, demo, pkg, runre], capture_output=True, text=True)
print(p.stdout[-1500:], p.stderr[-500:])
if "CONFIRMED:" not in p.stdout or "NOT-CONFIRMED" in p.stdout:
    sys.exit(1)
dst = os.path.join(V, "seeded", "%s-%s" % (prop, slug))
os.makedirs(dst, exist_ok=True)
shutil.copy(os.path.join(src, "patch.diff"), dst)
shutil.copy(os.path.join(src, demo), dst)
if os.path.exists(os.path.join(src, "README.md")):
    shutil.copy(os.path.join(src, "README.md"), os.path.join(dst, "AUTHOR-NOTES.md"))
head = subprocess.run(["git", "-C", "/repo", "rev-parse", "--short", "HEAD"], capture_output=True, text=True).stdout.strip()
meta = {"property": prop, "checks": checks, "needs_to_manifest": needs,
        "demo": {"file": demo, "copy_into": pkg, "run": "go test -vet=off -count=1 -run '%s' ./%s" % (runre, pkg)},
        "confirmed": {"repo_head": head, "how": "driver/seedverify.sh: scratch worktree of /repo; with the patch go build ./... ok, go test -vet=off -count=1 ./... passes, the demo fails; without it the demo passes 3 times"},
        "origin": "written by a fresh sub-agent that saw only the property text and its own worktree"}
json.dump(meta, open(os.path.join(dst, "meta.json"), "w"), indent=1)
print("kept", dst)
