"""Which tests decide which property, and the budgets per tier."""

def F(name, fuzztime, rule=""):
    """native fuzz target: thorough tier only"""
    return {"name": name, "quick": {"skip": True}, "thorough": {"fuzz": fuzztime}, "rule": rule}


def T(name, quick, thorough=None):
    return {"name": name, "quick": quick, "thorough": thorough if thorough is not None else quick}

PROPS = {}

PROPS["C04"] = {
    "level": "exploration",
    "exhaustive_tests": [],
    "assumptions": [
        "math/rand's global source is seeded per case (rand.Seed), so the two 63-bit draws are sampled, not enumerated; "
        "the universal claim over draws rests on the table check (G^(N^r) generates (Z/P)* for every row, order test with math/big)",
        "the bitmap oracle, trial-division primality/factorisation and math/big exponentiation are trusted",
    ],
    "units": [{
        "pkg": "pkg/scan",
        "tests": [
            T("TestC04Perm", {"checks": 500, "shards": 4, "env": {"C04_MAXN": 1 << 20}},
              {"checks": 400, "shards": 8, "env": {"C04_MAXN": 1 << 24}}),
            T("TestC04Interleaved", {"checks": 1500, "shards": 2}, {"checks": 20000, "shards": 8}),
            T("TestC04Table", {"checks": 10000}, {"checks": 40000, "shards": 4}),
            T("TestC04Reject", {"checks": 2000}, {"checks": 50000}),
        ] + [
            # full walks of the groups the existing tests never reach: n = 2^k for k=17..32, and P-1 of the last rows
            {"name": "TestC04FullWalk", "quick": {"skip": True},
             "thorough": {"checks": 1, "env": {"C04_WALK": w}, "timeout": 3000}, "variant": w}
            for w in [str(k) for k in range(17, 33)] + ["p29", "p30", "p31"]
        ],
    }, {
        "pkg": "pkg/scan", "race": True,
        "tests": [T("TestC04Concurrent", {"checks": 12, "shards": 4}, {"checks": 400, "shards": 8})],
    }],
}

PROPS["C05"] = {
    "level": "exploration",
    "assumptions": ["verifkit/wire (hand-written decoder, RFC 1071 checksum) is the trusted reference",
                    "math/rand is re-seeded per case so that the Ethernet and raw-IP frames of one case are comparable"],
    "units": [{
        "pkg": "command",
        "tests": [T("TestC05Fillers", {"checks": 10000, "shards": 2}, {"checks": 60000, "shards": 8}),
                  T("TestC05Spoofed", {"checks": 60, "shards": 3, "env": {"C05_FILLS": 150000}},
                    {"checks": 40, "shards": 8, "env": {"C05_FILLS": 400000}}),
                  T("TestC05Commands", {"checks": 500, "shards": 8}, {"checks": 3000, "shards": 16})],
    }, {
        "pkg": "command", "race": True,
        "tests": [T("TestC05Concurrent", {"checks": 25, "shards": 4, "gomaxprocs": [16, 4, 2, 16]}, {"checks": 250, "shards": 16, "gomaxprocs": [16, 4, 2, 16]})],
    }],
}

PROPS["C18"] = {
    "level": "exploration",
    "assumptions": ["verifkit/gram reference grammars are written from the option help texts/README; time.ParseDuration is trusted for durations",
                    "raw (unescaped) non-UTF-8 bytes in --payload are a documented don't-care"],
    "units": [{
        "pkg": "command",
        "tests": [T("TestC18Ports", {"checks": 6000, "shards": 2}, {"checks": 60000, "shards": 8}),
                  T("TestC18Rate", {"checks": 12000}, {"checks": 100000, "shards": 4}),
                  T("TestC18Flags", {"checks": 12000}, {"checks": 100000, "shards": 4}),
                  T("TestC18Payload", {"checks": 10000}, {"checks": 80000, "shards": 4}),
                  T("TestC18Exclude", {"checks": 4000, "shards": 2}, {"checks": 50000, "shards": 8}),
                  T("TestC18Commands", {"checks": 500, "shards": 8}, {"checks": 4000, "shards": 16})],
    }, {
        "pkg": "command", "fuzz": True, "thorough_only": True,
        "tests": [F("FuzzC18Ports", "60s"), F("FuzzC18Rate", "60s"), F("FuzzC18Flags", "45s"), F("FuzzC18Exclude", "60s"), F("FuzzC18Payload", "60s")],
    }],
}

PROPS["C20"] = {
    "level": "fault_enumeration",
    "exhaustive_when_all": True,
    "exhaustive_tests": ["TestC20Exhaustive"],
    "assumptions": ["read outcomes are the values gopacket's afpacket returns (syscall.Errno, io errors, a net.Error for timeouts); would-block and connection-reset also wrapped as package net and %w do (sx recognises them with errors.Is); terminal errors bare only",
                    "cancellation is injected synchronously inside a read call; one further read after it is tolerated",
                    "io.ErrNoProgress / io.ErrShortBuffer are not generated (the statement leaves them open)"],
    "units": [{
        "pkg": "pkg/packet",
        "tests": [T("TestC20Exhaustive", {"checks": 1, "env": {"C20_LEN": 3}}, {"checks": 1, "env": {"C20_LEN": 5}, "timeout": 3000}),
                  T("TestC20Random", {"checks": 600, "shards": 4, "env": {"C20_MAXU": 10}},
                    {"checks": 10000, "shards": 16, "env": {"C20_MAXU": 40}})] + [
                  {"name": "TestC20Long", "variant": "long%d" % i, "quick": {"checks": 1, "env": {"C20_LONG": i}},
                   "thorough": {"checks": 6, "env": {"C20_LONG": i}}} for i in range(2)],
    }, {
        "pkg": "pkg/packet", "fuzz": True, "thorough_only": True,
        "tests": [F("FuzzC20Script", "90s")],
    }],
}

PROPS["C14"] = {
    "level": "exploration",
    "assumptions": ["encoding/json's decoder is the trusted inverse (independent of easyjson, which encodes arp/icmp/tcp results)",
                    "invalid UTF-8 in string fields compares as U+FFFD: JSON cannot carry it and no sx code path produces it"],
    "units": [{
        "pkg": "command/log",
        "tests": [T("TestC14JSON", {"checks": 1200, "shards": 2}, {"checks": 8000, "shards": 8}),
                  T("TestC14Unique", {"checks": 800, "shards": 2}, {"checks": 5000, "shards": 8}),
                  T("TestC14ConcurrentErrors", {"checks": 24, "shards": 4}, {"checks": 400, "shards": 8}),
                  T("TestC14Backlog", {"checks": 6, "shards": 4}, {"checks": 100, "shards": 8}),
                  T("TestC14UniqueLarge", {"checks": 30, "shards": 2}, {"checks": 300, "shards": 8})],
    }, {
        "pkg": "command/log", "fuzz": True, "thorough_only": True,
        "tests": [F("FuzzC14JSON", "90s")],
    }],
}

PROPS["C06"] = {
    "level": "exploration",
    "assumptions": ["verifkit/wire's strict decoder defines 'well-formed header chain'; an IPv4 version nibble other than 4 is not judged",
                    "necessary conditions only: the check never demands a record"],
    "units": [{
        "pkg": "command",
        "tests": [T("TestC06Frames", {"checks": 15000, "shards": 8}, {"checks": 150000, "shards": 16}),
                  T("TestC06Burst", {"checks": 3, "shards": 4}, {"checks": 20, "shards": 8})],
    }, {
        "pkg": "command", "fuzz": True, "thorough_only": True,
        "tests": [F("FuzzC06TCP", "90s"), F("FuzzC06ICMP", "90s"), F("FuzzC06ARP", "60s")],
    }],
}

PROPS["C07"] = {
    "level": "exploration",
    "assumptions": ["schedules are sampled (worker counts, GOMAXPROCS 1/2/4/16 per shard, writer delays, race detector), not enumerated",
                    "errors are collected for up to 20 s before a missing error is reported"],
    "units": [{
        "pkg": "command", "race": True,
        "tests": [T("TestC07Pipeline", {"checks": 100, "shards": 8, "gomaxprocs": [1, 2, 4, 16], "env": {"C07_MAXN": 3000}},
                    {"checks": 2500, "shards": 16, "gomaxprocs": [1, 2, 4, 16], "env": {"C07_MAXN": 3000}})],
    }],
}

PROPS["C08"] = {
    "level": "exploration",
    "assumptions": ["schedules are sampled (worker counts 1..1000, latency classes, GOMAXPROCS per shard, race detector), not enumerated",
                    "error records are observed at the Logger.Error call (the line zap writes to stderr is one call later)",
                    "the output writer is an in-memory buffer; a writer slower than the exit delay is outside the statement"],
    "units": [{
        "pkg": "command", "race": True,
        "tests": [T("TestC08Engine", {"checks": 25, "shards": 12, "gomaxprocs": [1, 2, 4, 16], "env": {"C08_MAXN": 4500}},
                    {"checks": 500, "shards": 16, "gomaxprocs": [1, 2, 4, 16], "env": {"C08_MAXN": 5000}}),
                  T("TestC08ErrorRecords", {"checks": 12, "shards": 6}, {"checks": 80, "shards": 12})],
    }, {
        "pkg": "command",
        "tests": [T("TestC08Services", {"checks": 10, "shards": 4}, {"checks": 200, "shards": 8})],
    }],
}

PROPS["C01"] = {
    "level": "exploration",
    "needs_sx_binary": True,
    "kit_tools": ["nsrun"],
    "assumptions": ["the virtual wire (verifkit/vwire) replaces only pkg/packet/afpacket/readwriter.go; every frame handed to WritePacketData is observed",
                    "interface pinned with -i lo, source with --srcip/--srcmac; subnets wider than /22 are covered at generator level only"],
    "units": [{
        "pkg": "command",
        "tests": [T("TestC01Commands", {"checks": 60, "shards": 8, "env": {"C01_BUDGET": 3000}},
                    {"checks": 500, "shards": 16, "env": {"C01_BUDGET": 20000}}),
                  T("TestC01AppScans", {"checks": 150, "shards": 2, "env": {"C01_BUDGET": 3000}},
                    {"checks": 1500, "shards": 8, "env": {"C01_BUDGET": 20000}}),
                  T("TestC01Generators", {"checks": 100, "shards": 4, "env": {"C01_MINBITS": 14, "C01_PRODUCT_LOG2": 19}},
                    {"checks": 300, "shards": 16, "env": {"C01_MINBITS": 10, "C01_PRODUCT_LOG2": 23}}),
                  T("TestC01HugePrefix", {"checks": 24, "shards": 2}, {"checks": 60, "shards": 4}),
                  T("TestC01Netns", {"checks": 8, "shards": 6}, {"checks": 120, "shards": 12}),
                  {"name": "TestC01BigSubnet", "quick": {"skip": True}, "variant": "b8",
                   "thorough": {"checks": 1, "env": {"C01_BIG_BITS": 8}, "timeout": 3000}},
                  {"name": "TestC01BigSubnet", "quick": {"skip": True}, "variant": "b5",
                   "thorough": {"checks": 1, "env": {"C01_BIG_BITS": 5}, "timeout": 3000}}],
    }],
}

PROPS["C02"] = {
    "level": "exploration",
    "assumptions": ["gram.RefIPv4Target (strict dotted decimal, /0..32) defines 'IPv4 target'",
                    "for application scans 'no connection made' is established at option-parsing level (the scan range is refused before an engine exists)",
                    "exclusion-file parsing itself is C18's TestC18Exclude"],
    "units": [{
        "pkg": "command",
        "tests": [T("TestC02TargetStrings", {"checks": 1000, "shards": 8}, {"checks": 6000, "shards": 16}),
                  T("TestC02Exclusion", {"checks": 100, "shards": 8}, {"checks": 800, "shards": 16}),
                  T("TestC02ExclusionWide", {"checks": 10, "shards": 6}, {"checks": 100, "shards": 16}),
                  T("TestC02ListNextToSubnet", {"checks": 60, "shards": 4}, {"checks": 600, "shards": 8}),
                  T("TestC02Redirect", {"checks": 150, "shards": 4}, {"checks": 2000, "shards": 8})],
    }, {
        "pkg": "command", "fuzz": True, "thorough_only": True,
        "tests": [F("FuzzC02Target", "90s")],
    }],
}

PROPS["C03"] = {
    "level": "exploration",
    "needs_sx_binary": True,
    "kit_tools": ["nsrun"],
    "assumptions": ["the virtual wire executes the exact filter text sx installs in the x/net/bpf VM (same pcap compile call and link type as the real adapter)",
                    "frames are injected while the socket is open; a miss under the short exit delay is re-decided with a 3 s exit delay",
                    "don't-cares: NS bit with SYN+ACK, a port of another chunk, vendor string, fragments (not generated)"],
    "units": [{
        "pkg": "command",
        "tests": [T("TestC03Detection", {"checks": 80, "shards": 10}, {"checks": 1500, "shards": 16}),
                  T("TestC03Netns", {"checks": 10, "shards": 8}, {"checks": 250, "shards": 12}),
                  T("TestC03Burst", {"checks": 3, "shards": 4}, {"checks": 20, "shards": 8}),
                  T("TestC03NetnsQuiet", {"checks": 1, "shards": 3}, {"checks": 6, "shards": 6})],
    }, {
        "pkg": "command", "race": True,
        "tests": [T("TestC03Chunks", {"checks": 3, "shards": 4}, {"checks": 30, "shards": 8})],
    }],
}

PROPS["C13"] = {
    "level": "exploration",
    "assumptions": ["verifkit/gram's line model (lines.go) defines which entries cannot become probes and which causes an error may state; a line with two faults may be reported with either",
                    "in addresses-x-ports mode a bad line may be reported once per port pass (documented don't-care); ports are distinct so passes are identifiable",
                    "an ill-typed port field in addresses mode and raw non-UTF-8 bytes are not generated (the statement leaves them open)"],
    "units": [{
        "pkg": "command",
        "tests": [T("TestC13Stack", {"checks": 4000, "shards": 4}, {"checks": 40000, "shards": 16}),
                  T("TestC13Commands", {"checks": 100, "shards": 8}, {"checks": 2000, "shards": 16})],
    }],
}

PROPS["C11"] = {
    "level": "exploration",
    "assumptions": ["encoding/json is the independent decoder of the printed lines; verifkit/wire builds the ARP frames",
                    "concurrency: 1..32 readers of one cache under the race detector; schedules sampled",
                    "an ARP reply lost to the short exit delay of the first command makes the pipeline case inconclusive (that is C16's subject)"],
    "units": [{
        "pkg": "command", "race": True,
        "tests": [T("TestC11RoundTrip", {"checks": 600, "shards": 4}, {"checks": 6000, "shards": 8}),
                  T("TestC11CacheFile", {"checks": 300, "shards": 4, "gomaxprocs": [1, 4, 16, 2]}, {"checks": 3000, "shards": 16, "gomaxprocs": [1, 4, 16, 2]}),
                  T("TestC11Commands", {"checks": 25, "shards": 8}, {"checks": 600, "shards": 16})],
    }],
}

PROPS["C15"] = {
    "level": "exploration",
    "assumptions": ["timing is used one-sidedly (lower bounds on spans, monotonic clock): a slow machine cannot cause a false alarm",
                    "burst allowance checked is 12 (limiter slack 10 + one slot of observation skew + one of tolerance), plus the worker count for application scans",
                    "time of a frame = entry of WritePacketData on the virtual wire"],
    "max_parallel": 8,
    "units": [{
        "pkg": "command",
        "tests": [T("TestC15Algebra", {"checks": 400}, {"checks": 5000, "shards": 4}),
                  T("TestC15Rate", {"checks": 6, "shards": 8}, {"checks": 60, "shards": 16}),
                  T("TestC15AppRate", {"checks": 6, "shards": 6}, {"checks": 60, "shards": 12}),
                  T("TestC15AppStall", {"checks": 4, "shards": 6}, {"checks": 40, "shards": 12}),
                  T("TestC15Receive", {"checks": 3, "shards": 4}, {"checks": 12, "shards": 8})],
    }],
}

PROPS["C16"] = {
    "level": "exploration",
    "needs_sx_binary": True,
    "kit_tools": ["nsrun"],
    "assumptions": ["lower bounds (no exit / no socket close before the delay) are one-sided on the monotonic clock; the upper bound is delay + 10 s",
                    "on the virtual wire late replies arrive at most at half the delay; on real sockets (TestC16NetnsLate) up to 50 ms before its end - a reply in the last 50 ms is a don't-care (scheduling latencies), and a miss only counts when it repeats on a calm machine",
                    "the virtual wire's Close time stands for the moment the kernel socket stops receiving"],
    "max_parallel": 12,
    "units": [{
        "pkg": "command",
        "tests": [T("TestC16ExitDelay", {"checks": 16, "shards": 12}, {"checks": 300, "shards": 16}),
                  T("TestC16AppExitDelay", {"checks": 10, "shards": 4}, {"checks": 100, "shards": 8}),
                  T("TestC16NetnsLate", {"checks": 6, "shards": 6}, {"checks": 60, "shards": 8})],
    }],
}

PROPS["C19"] = {
    "level": "exploration",
    "assumptions": ["timing is one-sided: delegate-side timestamps (pass drained -> next GenerateRequests call) and 'first probe of pass k not before start+(k-1)*interval' at command level",
                    "whether passes resume after a pass that failed to start is a documented don't-care",
                    "at command level pass boundaries are not observed in order (pipeline workers may reorder), so coverage is judged by per-target counts"],
    "max_parallel": 12,
    "units": [{
        "pkg": "command",
        "tests": [T("TestC19Live", {"checks": 80, "shards": 8}, {"checks": 1500, "shards": 16}),
                  T("TestC19Command", {"checks": 8, "shards": 6}, {"checks": 250, "shards": 12})],
    }],
}

PROPS["C12"] = {
    "level": "fault_enumeration",
    "needs_sx_binary": True,
    "kit_tools": ["nsrun"],
    "extra_units_note": "TestC12RealSocketClose runs against the real AF_PACKET adapter (no virtual wire) in a child process inside a network namespace",
    "exhaustive_when_all": False,
    "assumptions": ["cancel points: synchronous cancellation of the parent context inside the k-th probe start / record write / error log (application engine), and the real SIGINT sent from inside the k-th frame write for every k of a run (packet commands)",
                    "'bounded time' = 30 s (expected: milliseconds); a miss is reported with a goroutine dump",
                    "leaked goroutines that do not block the call are not judged; schedules are sampled (race detector on)"],
    "max_parallel": 12,
    "units": [{
        "pkg": "command", "race": True,
        "tests": [T("TestC12App", {"checks": 60, "shards": 8, "gomaxprocs": [1, 2, 4, 16]}, {"checks": 600, "shards": 16, "gomaxprocs": [1, 2, 4, 16]}),
                  T("TestC12ChunkSwitch", {"checks": 6, "shards": 4}, {"checks": 60, "shards": 8}),
                  T("TestC12Packet", {"checks": 3, "shards": 8}, {"checks": 30, "shards": 16}),
                  T("TestC12Socks", {"checks": 4, "shards": 4}, {"checks": 30, "shards": 8}),
                  T("TestC12Services", {"checks": 6, "shards": 4}, {"checks": 60, "shards": 8})] + [
                  {"name": "TestC12BigSpace", "variant": "big%d" % i, "quick": {"checks": 1, "env": {"C12_BIG": i}}, "thorough": {"checks": 1, "env": {"C12_BIG": i}}}
                  for i in range(4)],
    }, {
        "pkg": "pkg/packet",
        "tests": [T("TestC12Sender", {"checks": 400, "shards": 2}, {"checks": 6000, "shards": 8})],
    }, {
        "pkg": "pkg/scan",
        "tests": [T("TestC12ResultChan", {"checks": 24, "shards": 8, "gomaxprocs": [2, 4, 16]}, {"checks": 300, "shards": 16, "gomaxprocs": [2, 4, 16]})],
    }, {
        "pkg": "command",
        "tests": [T("TestC12Netns", {"checks": 8, "shards": 8}, {"checks": 150, "shards": 12})],
    }, {
        "pkg": "pkg/packet/afpacket", "real_adapter": True,
        "tests": [T("TestC12RealSocketClose", {"checks": 12, "shards": 4}, {"checks": 120, "shards": 8})],
    }],
}

PROPS["C09"] = {
    "level": "fault_enumeration",
    "exhaustive_when_all": True,
    "exhaustive_tests": ["TestC09AllReplies"],
    "assumptions": ["loopback TCP (127.0.0.0/8) stands for the network; pauses between reply segments are <= a quarter of the data timeout, stalls are forever - nothing is placed near a deadline",
                    "delivery of 05 00 is certain only when the server read the greeting first and does not reset; otherwise a record is allowed but not demanded",
                    "time bound checked: connect + 3 x data timeout + 3 s slack; after cancel: 3 s"],
    "max_parallel": 8,
    "units": [{
        "pkg": "pkg/scan/socks5",
        "tests": [T("TestC09Scripts", {"checks": 250, "shards": 8}, {"checks": 4000, "shards": 16}),
                  T("TestC09AllReplies", {"checks": 1}, {"checks": 1, "env": {"C09_ALL": 1}, "timeout": 3000})],
    }, {
        "pkg": "command",
        "tests": [T("TestC09Command", {"checks": 12, "shards": 2}, {"checks": 60, "shards": 4})],
    }],
}

PROPS["C10"] = {
    "level": "fault_enumeration",
    "exhaustive_when_all": False,
    "assumptions": ["loopback HTTP/HTTPS scripted at socket level stands for the network; stalls are forever, nothing is placed near a deadline",
                    "reference for 'JSON object': encoding/json into interface{}; trailing bytes after a complete object are a don't-care and are not generated",
                    "redirects, 1xx, 204, 304 are not generated; docker with a literal null /info body is a known finding excluded by construction"],
    "max_parallel": 8,
    "units": [{
        "pkg": "command",
        "tests": [T("TestC10Probes", {"checks": 120, "shards": 8}, {"checks": 2500, "shards": 16}),
                  T("TestC10Command", {"checks": 16, "shards": 2}, {"checks": 100, "shards": 4}),
                  T("TestC10KnownDockerNull", {"checks": 1})] + [
                  {"name": "TestC10SlowServer", "variant": "slow%d" % i, "quick": {"checks": 1, "env": {"C10_SLOW": i}},
                   "thorough": {"checks": 4, "env": {"C10_SLOW": i}}} for i in range(2)],
    }],
}

PROPS["C17"] = {
    "level": "exploration",
    "needs_sx_binary": True,
    "kit_tools": ["nsrun"],
    "assumptions": ["network namespaces with veth pairs and tun devices stand for host network configurations (dummy, vlan and tunnel devices do not exist in this kernel; policy routing is not generated)",
                    "the configuration is judged as the kernel reports it inside the namespace (interface order, address order, MACs)",
                    "kernel-originated frames (IPv6 RS/MLD) are recognised by ethertype and ignored; --srcmac together with a MAC-less device is not generated (left open by the statement)"],
    "max_parallel": 16,
    "units": [{
        "pkg": "command",
        "tests": [T("TestC17Netns", {"checks": 30, "shards": 16}, {"checks": 700, "shards": 16})],
    }],
}
