#!/usr/bin/env python3
"""Regenerates /verif/MANIFEST.json from driver/props.py + driver/claims.py (kept in git)."""
import json, os, sys
here = os.path.dirname(os.path.abspath(__file__))
sys.path.insert(0, here)
from props import PROPS
from claims import CLAIMS, NOT_APPLICABLE, ENGINES, NOTES

checks = []
for pid in sorted(PROPS):
    c = CLAIMS[pid]
    checks.append({
        "property_id": pid,
        "quick_cmd": "./check %s --tier quick" % pid,
        "thorough_cmd": "./check %s --tier thorough" % pid,
        "evidence_file": "/verif/evidence/%s.json" % pid,
        "replay_cmd_template": "./check %s --replay {path}" % pid,
        "engine": c["engine"],
        "level_claimed": {"category": PROPS[pid]["level"], "text": c["text"], "design_ref": c["design_ref"]},
        "level_note": c["note"],
        "technique": c["technique"],
    })
m = {
    "version": 1,
    "setup_cmd": "./check setup",
    "hooks": {
        "guard": "verif",
        "enable": "go test -c -tags verif -modfile=<generated copy of /repo/go.mod + rapid + verifkit> -overlay=<json adding /verif/props/**/zz_verif_*_test.go into /repo's package dirs>; nothing is committed to /repo for hooks",
        "baseline_off_cmd": "cd /repo && go test -json -vet=off -count=1 -timeout 25m ./...",
        "source_commits": [],
        "add_only": True,
    },
    "engines": ENGINES,
    "checks": checks,
    "notes": NOTES,
    "not_applicable": [{"property_id": p, "reason": r} for p, r in sorted(NOT_APPLICABLE.items()) if p not in PROPS],
}
json.dump(m, open(os.path.join(here, "..", "MANIFEST.json"), "w"), indent=1)
print("MANIFEST.json: %d checks, %d not_applicable" % (len(checks), len(m["not_applicable"])))
