#!/usr/bin/env python3
"""copy a replay file into the corpus (exact integers, message clipped): tocorpus.py <replay.json> [name]"""
import json, os, sys
src = sys.argv[1]
d = json.load(open(src))
d["message"] = (d.get("message") or "")[:400]
dst_dir = os.path.join(os.path.dirname(os.path.abspath(__file__)), "..", "corpus", d["property"])
os.makedirs(dst_dir, exist_ok=True)
name = sys.argv[2] if len(sys.argv) > 2 else os.path.basename(src)
if not name.endswith(".json"):
    name += ".json"
json.dump(d, open(os.path.join(dst_dir, name), "w"))
print(os.path.join(dst_dir, name))
