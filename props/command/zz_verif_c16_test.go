//go:build verif

package command

import (
	"context"
	"encoding/json"
	"fmt"
	"math/rand"
	"strings"
	"sync"
	"syscall"
	"testing"
	"time"

	kit "verifkit"
	"verifkit/gram"
	"verifkit/shape"
	"verifkit/vwire"
	"verifkit/wire"

	"github.com/v-byte-cpu/sx/pkg/scan"
	"pgregory.net/rapid"
)

// C16: the exit delay is honoured - late replies are still reported, then the scan exits.

type c16Case struct {
	Cmd      string  `json:"command"`
	ExitMs   int     `json:"exit_delay_ms"`
	LateFrac float64 `json:"reply_arrives_at_fraction_of_delay"` // 0..0.5
	Addrs    int     `json:"addresses_log2"`                     // subnet of 2^k addresses
	NPorts   int     `json:"port_ranges"`                        // single ports; >200 => chunks
	PerMs    float64 `json:"rate_ms_per_probe"`                  // 0: no --rate; else the send phase is stretched beyond the exit delay
	VPN      bool    `json:"vpn"`
	ErrLine  bool    `json:"targets_from_a_file_with_a_bad_last_line"` // a non-fatal error occurs during the scan: the delay still applies
	// after the last probe of each chunk the socket reports a receive error every so many ms (an interface that flaps):
	// errors are logged, the delay is neither shortened nor restarted by them
	RxErrMs int   `json:"receive_error_every_ms_during_the_delay,omitempty"`
	Seed    int64 `json:"rand_seed"`
}

func c16Reply(kind string, eth bool, src uint32, port uint16) []byte {
	s, dst := gram.U32Bytes(src), [4]byte{10, 250, 0, 1}
	var body []byte
	etype := uint16(wire.EtherIPv4)
	switch kind {
	case "arp":
		etype = wire.EtherARP
		body = wire.ARP{HType: 1, PType: 0x0800, HLen: 6, PLen: 4, Op: 2, SHA: []byte{2, 5, 5, 5, 5, 5}, SPA: s[:], THA: []byte{2, 0, 0, 0, 0, 1}, TPA: dst[:]}.Bytes()
	case "icmp", "udp":
		body = wire.IPv4{ID: 9, Flags: 2, TTL: 61, Proto: wire.ProtoICMP, Src: s, Dst: dst}.Bytes(wire.ICMP{Type: 3, Code: 3, ID: 0, Seq: 0}.Bytes([]byte("late reply")))
	case "tcpsyn":
		body = wire.IPv4{ID: 9, Flags: 2, TTL: 61, Proto: wire.ProtoTCP, Src: s, Dst: dst}.Bytes(wire.TCP{SrcPort: port, DstPort: 40000, Flags: wire.SYN | wire.ACK, Window: 100}.Bytes(s, dst, nil))
	default:
		body = wire.IPv4{ID: 9, Flags: 2, TTL: 61, Proto: wire.ProtoTCP, Src: s, Dst: dst}.Bytes(wire.TCP{SrcPort: port, DstPort: 40000, Flags: wire.RST | wire.ACK, Window: 0}.Bytes(s, dst, nil))
	}
	if !eth {
		return body
	}
	return append(wire.Eth{Dst: [6]byte{2, 0, 0, 0, 0, 1}, Src: [6]byte{2, 5, 5, 5, 5, 5}, Type: etype}.Bytes(), body...)
}

func c16Check(c c16Case) *kit.Verdict {
	v := &kit.Verdict{}
	kind := scanKind(c.Cmd)
	base := strings.Fields(c.Cmd)[0]
	d := time.Duration(c.ExitMs) * time.Millisecond
	v.Label("cmd=%s", c.Cmd)
	v.Label("delay=%s", bucket(c.ExitMs, 0, 100, 300, 800))
	naddr := 1 << uint(c.Addrs)
	subnet := gram.Prefix{Base: 10<<24 | 9<<16, Bits: 32 - c.Addrs, Addr: 10<<24 | 9<<16}
	var ports []gram.PortRange
	if !cmdPortless(base) {
		for i := 0; i < c.NPorts; i++ {
			ports = append(ports, gram.PortRange{Start: uint16(1000 + 3*i), End: uint16(1000 + 3*i)})
		}
	}
	nchunks := 1
	if len(ports) > 0 {
		nchunks = (len(ports) + 199) / 200
	}
	expect := func(sock int) int { // probes on socket number sock
		if len(ports) == 0 {
			return naddr
		}
		return naddr * len(chunkRanges(ports, sock))
	}
	v.Units = 0
	for i := 0; i < nchunks; i++ {
		v.Units += expect(i)
	}
	if nchunks > 1 {
		v.Label("chunked")
	}
	if c.PerMs > 0 {
		v.Label("send-phase-longer-than-delay")
	}
	eth := !c.VPN || base == "arp"

	type late struct {
		sock      int
		key       string
		delivered bool
		sinceLast time.Duration
		after     time.Duration // measured after the injection call returned
	}
	var mu sync.Mutex
	var lates []*late
	count := map[int]int{}
	sc := vwire.Scenario{OnWrite: func(w *vwire.World, s *vwire.Socket, wr *vwire.Write) error {
		mu.Lock()
		count[s.Index]++
		n := count[s.Index]
		mu.Unlock()
		if n != expect(s.Index) {
			return nil
		}
		// that was the last probe of this chunk: a reply arrives within the exit delay
		lastAt := wr.At
		src := subnet.Base + uint32(naddr-1)
		var port uint16
		if rs := chunkRanges(ports, s.Index); len(rs) > 0 {
			port = rs[len(rs)-1].Start
		}
		fr := c16Reply(kind, eth, src, port)
		sh := shape.Scan{Kind: kind, Ethernet: eth, Subnet: &subnet, Ports: chunkRanges(ports, s.Index), AllPorts: ports}
		verdict, key := shape.Classify(sh, fr)
		if verdict != shape.Yes {
			panic("harness: late reply is not reply-shaped: " + key)
		}
		l := &late{sock: s.Index, key: key}
		mu.Lock()
		lates = append(lates, l)
		mu.Unlock()
		if c.RxErrMs > 0 {
			var tick func()
			k := 0
			tick = func() {
				k++
				if s.InjectReadError(fmt.Errorf("recvfrom: %w (receive error #%d)", syscall.ENETDOWN, k)) && k < 4000 {
					w.After(time.Duration(c.RxErrMs)*time.Millisecond, tick)
				}
			}
			w.After(time.Duration(c.RxErrMs)*time.Millisecond, tick)
		}
		w.After(time.Duration(float64(d)*c.LateFrac), func() {
			at := time.Since(lastAt)
			ok := s.Inject(fr)
			mu.Lock()
			l.delivered, l.sinceLast, l.after = ok, at, time.Since(lastAt)
			mu.Unlock()
		})
		return nil
	}}
	files := &cmdFiles{}
	defer files.cleanup()
	args := append([]string{}, strings.Fields(c.Cmd)...)
	args = append(args, "-i", "lo", "--srcip", c01SrcIP, "--json", "--exit-delay", d.String())
	if base == "arp" {
		args = append(args, "--srcmac", c01SrcMAC)
	} else if !c.VPN {
		args = append(args, "--srcmac", c01SrcMAC, "--gwmac", c01GwMAC, "-a", files.write("arpcache", ""))
	}
	if c.PerMs > 0 {
		args = append(args, "--rate", fmt.Sprintf("1/%dus", int(c.PerMs*1000)))
	}
	if len(ports) > 0 {
		args = append(args, "-p", renderPorts(ports))
	}
	if c.ErrLine && base != "arp" {
		v.Label("error-during-scan")
		var sb strings.Builder
		for i := 0; i < naddr; i++ {
			fmt.Fprintf(&sb, `{"ip":"%s"}`+"\n", gram.U32String(subnet.Base+uint32(i)))
		}
		sb.WriteString(`{"ip":"10.9.0.x"}` + "\n")
		args = append(args, "-f", files.write("targets", sb.String()))
	} else {
		args = append(args, subnet.String())
	}
	jw := startJitterWatch()
	res := runCmd(cmdRun{Args: args, Seed: c.Seed, World: vwire.NewWorld(sc), Timeout: d + 60*time.Second})
	lateness := jw.Stop()
	line := "sx " + strings.Join(args, " ")
	if res.Hung {
		return v.Failf("%s did not exit within %v of its start (exit delay %v)\n%s", line, d+60*time.Second, d, clipN(res.Goroutines, 2500))
	}
	if res.Err != nil {
		return v.Failf("%s failed: %v", line, res.Err)
	}
	if len(res.Sockets) != nchunks {
		return v.Failf("%s: %d sockets, expected %d chunks", line, len(res.Sockets), nchunks)
	}
	var lastWrite time.Time
	for _, s := range res.Sockets {
		if len(s.Writes) != expect(s.Index) {
			return v.Failf("%s: chunk %d wrote %d probes, expected %d", line, s.Index+1, len(s.Writes), expect(s.Index))
		}
		lw := s.Writes[len(s.Writes)-1].At
		if lw.After(lastWrite) {
			lastWrite = lw
		}
		if open := s.ClosedAt.Sub(lw); !s.Closed || open < d {
			return v.Failf("%s\nchunk %d of %d: the socket was closed %v after its last probe; the exit delay is %v", line, s.Index+1, nchunks, open, d)
		}
	}
	if got := res.Returned.Sub(lastWrite); got < d {
		return v.Failf("%s\nreturned %v after the last probe left; the exit delay is %v", line, got, d)
	} else if got > d+10*time.Second {
		return v.Failf("%s\nreturned only %v after the last probe left; the exit delay is %v", line, got, d)
	}
	if res.Stdout != "" && !strings.HasSuffix(res.Stdout, "\n") {
		return v.Failf("%s: output ends with an incomplete record: %q", line, clipN(res.Stdout, 200))
	}
	got := map[string]int{}
	for _, l := range strings.Split(strings.TrimSuffix(res.Stdout, "\n"), "\n") {
		if l == "" {
			continue
		}
		var m map[string]interface{}
		if json.Unmarshal([]byte(l), &m) != nil {
			return v.Failf("%s: incomplete record %q", line, l)
		}
		k, err := recordKey(kind, l)
		if err != nil {
			return v.Failf("%s: %v", line, err)
		}
		got[k]++
	}
	mu.Lock()
	defer mu.Unlock()
	if len(lates) != nchunks {
		return v.Failf("harness: %d late replies scheduled for %d chunks", len(lates), nchunks)
	}
	for _, l := range lates {
		if !l.delivered && l.after >= d {
			// the harness's own timer fired late (busy machine): the reply arrived after the exit delay, a closed socket is right
			return &kit.Verdict{Inconclusive: true}
		}
		if !l.delivered {
			return v.Failf("%s\nchunk %d: a reply arriving %v after the chunk's last probe (exit delay %v) found the socket closed or its filter refusing it", line, l.sock+1, l.sinceLast, d)
		}
		if got[l.key] < 1 && (lateness > d/8 || l.sinceLast > d*3/4) {
			// the reply had at least half the delay to be processed, but the machine stalled for a good part of it
			return &kit.Verdict{Inconclusive: true}
		}
		if got[l.key] < 1 {
			return v.Failf("%s\nchunk %d: a reply-shaped frame arrived %v after the chunk's last probe, within the exit delay of %v, but was not reported (%s)\nstdout: %s", line, l.sock+1, l.sinceLast, d, l.key, clipN(res.Stdout, 300))
		}
		got[l.key]--
	}
	v.NonTrivial = c.LateFrac > 0.05
	return v
}

func TestC16ExitDelay(t *testing.T) {
	kit.Run(t, kit.Spec[c16Case]{
		Prop: "C16",
		Rule: "full packet-scan commands (arp, icmp, udp, tcp syn/fin/null/xmas/--flags; Ethernet and raw-IP; 1..450 single-port ranges => 1..3 chunks; in a quarter of the cases the socket reports a receive error every 7..45 ms from the last probe of a chunk on; optionally --rate so that the send phase lasts longer than the exit delay; optionally the targets come from a file whose last line is bad, so that a non-fatal error occurs during the scan) with --exit-delay 80..1200 ms; after the last probe of EVERY chunk a reply-shaped frame arrives at u*delay, u in [0,0.5]. Oracle: each late reply is delivered (socket still open) and reported (a missing record is discarded as inconclusive when a scheduler-lateness monitor saw a stall of more than delay/8 during the run); every chunk's socket stays open >= delay after its last probe; Execute() returns >= delay (one-sided, monotonic) and <= delay+10 s after the last probe; all printed lines are complete JSON. non-trivial: u > 0.05; distinct by case",
		Gen: func(t *rapid.T) c16Case {
			c := c16Case{Cmd: rapid.SampledFrom(c01PacketCmds).Draw(t, "cmd"), Seed: rapid.Int64().Draw(t, "seed")}
			c.ExitMs = rapid.SampledFrom([]int{80, 120, 200, 300, 500, 1200}).Draw(t, "exit")
			c.LateFrac = float64(rapid.IntRange(0, 50).Draw(t, "late")) / 100
			base := strings.Fields(c.Cmd)[0]
			c.Addrs = rapid.IntRange(0, 3).Draw(t, "addrs")
			if !cmdPortless(base) {
				c.NPorts = rapid.SampledFrom([]int{1, 2, 7, 200, 201, 260, 450}).Draw(t, "nports")
				if c.NPorts > 100 {
					c.Addrs = rapid.IntRange(0, 1).Draw(t, "addrs2")
				}
			} else {
				c.Addrs = rapid.IntRange(0, 6).Draw(t, "addrs3")
			}
			if base != "arp" {
				c.VPN = rapid.Bool().Draw(t, "vpn")
			}
			c.ErrLine = base != "arp" && rapid.IntRange(0, 3).Draw(t, "errline") == 0
			if rapid.IntRange(0, 3).Draw(t, "rxerr") == 0 {
				c.RxErrMs = rapid.SampledFrom([]int{7, 20, 45}).Draw(t, "rxerr-ms")
			}
			if rapid.IntRange(0, 2).Draw(t, "slow-send") == 0 && c.ExitMs <= 300 {
				// stretch the send phase of (the first chunk of) the scan beyond the exit delay
				n := (1 << uint(c.Addrs)) * max(1, min(c.NPorts, 200))
				if n >= 14 {
					c.PerMs = 1.6 * float64(c.ExitMs) / float64(n-13)
					if c.PerMs < 0.2 {
						c.PerMs = 0.2
					}
				}
			}
			return c
		},
		Check: c16Check,
	})
}

// ---------------------------------------------------------------- application scans: no exit before the delay

type c16AppCase struct {
	Cmd     string `json:"command"`
	ExitMs  int    `json:"exit_delay_ms"` // 0: flag not given (default 300 ms)
	Probes  int    `json:"probes"`
	ScanMs  int    `json:"probe_duration_ms"`
	Workers int    `json:"workers"`
}

type c16Scanner struct {
	mu      sync.Mutex
	d       time.Duration
	lastEnd time.Time
	n       int
}

func (s *c16Scanner) Scan(ctx context.Context, r *scan.Request) (scan.Result, error) {
	time.Sleep(s.d)
	s.mu.Lock()
	s.lastEnd = time.Now()
	s.n++
	s.mu.Unlock()
	return nil, nil
}

func c16AppCheck(c c16AppCase) *kit.Verdict {
	v := &kit.Verdict{Units: c.Probes}
	v.Label("cmd=%s", c.Cmd)
	args := []string{"-w", fmt.Sprint(c.Workers), "-p", fmt.Sprintf("3000-%d", 3000+c.Probes-1)}
	d := 300 * time.Millisecond
	if c.ExitMs > 0 {
		d = time.Duration(c.ExitMs) * time.Millisecond
		args = append(args, "--exit-delay", d.String())
	} else {
		v.Label("default-delay")
	}
	args = append(args, "10.9.8.7")
	opts, rest, err := appCmdOpts(c.Cmd, args)
	if err != nil {
		return v.Failf("sx %s %s: %v", c.Cmd, strings.Join(args, " "), err)
	}
	r, err := opts.parseScanRange(rest)
	if err != nil {
		return v.Failf("scan range: %v", err)
	}
	logger, err := opts.getLogger("c16", &c11Buf{})
	if err != nil {
		return v.Failf("logger: %v", err)
	}
	rand.Seed(1)
	ctx, cancel := context.WithCancel(context.Background())
	defer cancel()
	sc := &c16Scanner{d: time.Duration(c.ScanMs) * time.Millisecond}
	engine := opts.newScanEngine(ctx, sc)
	ret := make(chan time.Time, 1)
	go func() {
		startScanEngine(ctx, engine, newEngineConfig(withLogger(logger), withScanRange(r), withExitDelay(opts.exitDelay)))
		ret <- time.Now()
	}()
	var returned time.Time
	select {
	case returned = <-ret:
	case <-time.After(d + 60*time.Second):
		return v.Failf("sx %s %s: the scan did not end %v after its start (exit delay %v)", c.Cmd, strings.Join(args, " "), d+60*time.Second, d)
	}
	sc.mu.Lock()
	defer sc.mu.Unlock()
	if sc.n != c.Probes {
		return v.Failf("%d probes, expected %d", sc.n, c.Probes)
	}
	if got := returned.Sub(sc.lastEnd); got < d {
		return v.Failf("sx %s %s\nthe scan ended %v after its last probe finished; the exit delay is %v", c.Cmd, strings.Join(args, " "), got, d)
	} else if got > d+10*time.Second {
		return v.Failf("sx %s %s\nthe scan ended only %v after its last probe finished; the exit delay is %v", c.Cmd, strings.Join(args, " "), got, d)
	}
	// the same through the command's own RunE wiring: one probe to a closed loopback port (refused at once)
	cargs := []string{c.Cmd, "--json", "-p", "1", "127.0.0.1"}
	if c.ExitMs > 0 {
		cargs = append(cargs, "--exit-delay", d.String())
	}
	res := runCmd(cmdRun{Args: cargs, Timeout: d + 60*time.Second})
	if res.Hung || res.Err != nil {
		return v.Failf("sx %s: hung=%v err=%v", strings.Join(cargs, " "), res.Hung, res.Err)
	}
	if got := res.Returned.Sub(res.Started); got < d {
		return v.Failf("sx %s\nexited %v after its start; the exit delay is %v", strings.Join(cargs, " "), got, d)
	} else if got > d+30*time.Second {
		return v.Failf("sx %s\nexited only %v after its start; the exit delay is %v", strings.Join(cargs, " "), got, d)
	}
	v.NonTrivial = c.Probes*c.ScanMs/c.Workers > 0
	return v
}

func TestC16AppExitDelay(t *testing.T) {
	kit.Run(t, kit.Spec[c16AppCase]{
		Prop: "C16",
		Rule: "socks / docker / elastic: real flag parsing (--exit-delay given or defaulted) and startScanEngine over genericScanCmdOpts.newScanEngine with a scanner whose probes last 0..40 ms (scan phase shorter or longer than the delay). Oracle: the scan call returns >= delay after the last probe finished (one-sided) and <= delay+10 s; and the full command (one probe to a closed loopback port) does not exit before the delay. non-trivial: probes take time; distinct by case",
		Gen: func(t *rapid.T) c16AppCase {
			return c16AppCase{Cmd: rapid.SampledFrom([]string{"socks", "docker", "elastic"}).Draw(t, "cmd"),
				ExitMs: rapid.SampledFrom([]int{0, 60, 150, 400, 700}).Draw(t, "exit"), Probes: rapid.SampledFrom([]int{1, 5, 40}).Draw(t, "probes"),
				ScanMs: rapid.SampledFrom([]int{0, 5, 40}).Draw(t, "scanms"), Workers: rapid.SampledFrom([]int{1, 4, 100}).Draw(t, "workers")}
		},
		Check: c16AppCheck,
	})
}
