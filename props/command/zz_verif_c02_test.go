//go:build verif

package command

import (
	"context"
	"fmt"
	"github.com/v-byte-cpu/sx/pkg/scan"
	"math/rand"
	"net"
	"strings"
	"testing"
	"time"

	kit "verifkit"
	"verifkit/gram"

	"github.com/v-byte-cpu/sx/pkg/ip"
	"pgregory.net/rapid"
)

// C02: confinement - nothing outside the target set or inside exclusions; non-IPv4 targets refused.

type c02Case struct {
	Cmd    string `json:"command"`
	Target string `json:"target"`
	Class  string `json:"class"`
	Seed   int64  `json:"rand_seed"`
}

var c02Cmds = []string{"arp", "icmp", "udp", "tcp", "tcp syn", "tcp fin", "tcp null", "tcp xmas", "tcp --flags ack", "socks", "docker", "elastic"}

func c02GenTarget(t *rapid.T) (string, string) {
	a := uint32(kit.UniformInt64(t, "addr", 0, 1<<32-1))
	v4 := gram.U32String(a)
	hex := func(n int) string {
		return fmt.Sprintf("%x", rapid.Uint32Range(0, 1<<uint(4*n)-1).Draw(t, "hex"))
	}
	switch rapid.IntRange(0, 11).Draw(t, "class") {
	case 0:
		return v4, "ipv4-host"
	case 1:
		return fmt.Sprintf("%s/%d", v4, rapid.IntRange(24, 32).Draw(t, "bits")), "ipv4-cidr-small"
	case 2:
		return fmt.Sprintf("%s/%d", v4, rapid.IntRange(0, 32).Draw(t, "bits")), "ipv4-cidr-any"
	case 3:
		return rapid.SampledFrom([]string{"::1", "::", "fe80::1", "2001:db8::1", "2001:0db8:0000:0000:0000:0000:0000:0001", "fe80::1%lo", "::" + v4,
			"1::", "ff02::1", hex(4) + "::" + hex(4)}).Draw(t, "v6host"), "ipv6-host"
	case 4:
		return "::ffff:" + v4, "ipv4-mapped-host"
	case 5:
		return fmt.Sprintf("::ffff:%s/%d", v4, rapid.IntRange(96, 128).Draw(t, "bits")), "ipv4-mapped-cidr"
	case 6:
		// IPv6 CIDR, zero upper bits, every host-part width
		return fmt.Sprintf("::%s/%d", rapid.SampledFrom([]string{"", "1", v4, hex(4), hex(8)}).Draw(t, "low"), rapid.IntRange(0, 128).Draw(t, "bits")), "ipv6-cidr-zero-upper"
	case 7:
		return fmt.Sprintf("%s:%s::%s/%d", hex(4), hex(4), rapid.SampledFrom([]string{"", "1", hex(4)}).Draw(t, "low"), rapid.IntRange(0, 128).Draw(t, "bits")), "ipv6-cidr"
	case 8:
		return rapid.SampledFrom([]string{"", " ", "1.2.3", "1.2.3.4.5", "1.2.3.256", "1.2.3.4/33", "1.2.3.4/-1", "1.2.3.4/", "/24", "1.2.3.4/24/8", "01.2.3.4", "1.2.3.04/24",
			"0x1.2.3.4", "1.2.3.4 ", " 1.2.3.4", "1.2.3.4/ 24", "١.٢.٣.٤", "1.2.3.4\x00", "1.2.3.4\n", "localhost", "1.2.3.4/2 4", "1,2,3,4", "1.2.3.4/0x18", "4294967295", "1.2.3.-4",
			"1.2.3.4/24#", strings.Repeat("1", 10000), strings.Repeat("1.", 5000), "::ffff:1.2.3", "::g", ":::", "1:2:3:4:5:6:7:8:9", "1.2.3.4:80", "[::1]"}).Draw(t, "garbage"), "garbage"
	case 9:
		s := rapid.SampledFrom([]string{v4, v4 + "/24", "::ffff:" + v4, "::1/128"}).Draw(t, "seedstr")
		return c18Mutate(t, s, []rune("0123456789./:abcdef %-+ \x00٣")), "mutated"
	case 10:
		return c18Arbitrary(t, []rune("0123456789./:abcdef")), "arbitrary"
	default:
		return fmt.Sprintf("%s/%d", v4, rapid.SampledFrom([]int{32, 31, 30, 29}).Draw(t, "bits")), "ipv4-cidr-tiny"
	}
}

func c02Check(c c02Case) *kit.Verdict {
	v := &kit.Verdict{}
	v.Label("class=%s", c.Class)
	v.Label("cmd=%s", strings.Fields(c.Cmd)[0])
	ref, isV4 := gram.RefIPv4Target(c.Target)
	v.NonTrivial = !isV4
	// --- parser level
	n, err := ip.ParseIPNet(c.Target)
	if !isV4 {
		v.Label("not-ipv4")
		if err == nil {
			return v.Failf("ParseIPNet(%q) accepted a non-IPv4 target as %v", clip(c.Target), n)
		}
	} else {
		v.Label("ipv4")
		if err != nil {
			return v.Failf("ParseIPNet(%q) refused a valid IPv4 target: %v", c.Target, err)
		}
		ones, bits := n.Mask.Size()
		ip4 := n.IP.To4()
		if ip4 == nil || len(n.IP) != net.IPv4len || bits != 32 || ones != ref.Bits || gram.BytesU32(ip4) != ref.Base {
			return v.Failf("ParseIPNet(%q) = %v (ip %d bytes, mask %d/%d), reference %s/%d", c.Target, n, len(n.IP), ones, bits, gram.U32String(ref.Base), ref.Bits)
		}
	}
	// --- command level
	base := strings.Fields(c.Cmd)[0]
	if base == "socks" || base == "docker" || base == "elastic" {
		opts, rest, perr := appCmdOpts(base, []string{"-p", "80", "--", c.Target})
		if perr != nil {
			return v.Failf("harness: option parsing failed: %v", perr)
		}
		_, rerr := opts.parseScanRange(rest)
		if !isV4 && rerr == nil {
			return v.Failf("sx %s -p 80 %q: non-IPv4 target accepted", base, clip(c.Target))
		}
		if isV4 && rerr != nil {
			return v.Failf("sx %s -p 80 %q: IPv4 target refused: %v", base, c.Target, rerr)
		}
		return v
	}
	if isV4 && ref.Size() > 64 {
		return v // too big to run here; C01 covers valid specifications
	}
	files := &cmdFiles{}
	defer files.cleanup()
	spec := gram.Spec{}
	if !cmdPortless(base) {
		spec.Ports = []gram.PortRange{{Start: 80, End: 80}}
	}
	args, stdin := specArgs(c.Cmd, spec, "p", false, false, files, "--exit-delay", "5ms", "--", c.Target)
	res := runCmd(cmdRun{Args: args, Stdin: stdin, Seed: c.Seed, Timeout: 60 * time.Second})
	if res.Hung {
		return v.Failf("sx %s %q did not return\n%s", c.Cmd, clip(c.Target), clipN(res.Goroutines, 2500))
	}
	if !isV4 {
		if res.Err == nil {
			return v.Failf("sx %s %q: non-IPv4 target but the command succeeded (%d frames sent)", c.Cmd, clip(c.Target), len(res.Writes))
		}
		if len(res.Sockets) > 0 || len(res.Writes) > 0 {
			return v.Failf("sx %s %q: refused with %v, but %d sockets were opened and %d frames sent", c.Cmd, clip(c.Target), res.Err, len(res.Sockets), len(res.Writes))
		}
		return v
	}
	if res.Err != nil {
		return v.Failf("sx %s %q: IPv4 target refused: %v", c.Cmd, c.Target, res.Err)
	}
	spec.CIDR = c.Target
	want, _ := spec.Denote(cmdPortless(base))
	got, derr := probesOnWire(base, res)
	if derr != nil {
		return v.Failf("sx %s %q: %v", c.Cmd, c.Target, derr)
	}
	if d := gram.DiffProbes(want, got); d != "" {
		return v.Failf("sx %s %q: probes differ from the target: %s", c.Cmd, c.Target, d)
	}
	return v
}

func TestC02TargetStrings(t *testing.T) {
	kit.Run(t, kit.Spec[c02Case]{
		Prop: "C02",
		Rule: "target strings from a grammar (IPv4 host/CIDR as positive control; IPv6 hosts incl. zoned; IPv4-mapped hosts and CIDRs /96../128; IPv6 CIDRs with zero and non-zero upper 96 bits and every prefix length 0..128; garbage list incl. empty, spaces, short/long dotted forms, /33, /-1, octet 256, leading zeros, unicode digits, NUL, newline, 10kB strings; mutations; arbitrary bytes) given to ip.ParseIPNet and as the positional argument of every command (12 command forms). Oracle: gram.RefIPv4Target (strict dotted decimal + /0..32). not IPv4 => error, no socket opened, no frame written, no crash/hang; IPv4 => accepted as exactly that prefix (and, when <=64 addresses, probed exactly). non-trivial: string not in the IPv4 language; distinct by case",
		Gen: func(t *rapid.T) c02Case {
			tg, class := c02GenTarget(t)
			return c02Case{Cmd: rapid.SampledFrom(c02Cmds).Draw(t, "cmd"), Target: tg, Class: class, Seed: rapid.Int64().Draw(t, "seed")}
		},
		Check: c02Check,
	})
}

// ---------------------------------------------------------------- exclusion at command level

type c02ExCase struct {
	C01   c01Case `json:"scan"`
	Decor int     `json:"exclude_file_decoration"`
}

func TestC02Exclusion(t *testing.T) {
	kit.Run(t, kit.Spec[c01Case]{
		Prop: "C02",
		Rule: "packet-scan commands over a /24../29 subnet or a target file (4- and 16-byte spellings) with 1..6 exclusion entries that intersect the target (one case in eight: 350..900 further single-host lines, a file of 5..13 KiB): hosts, CIDRs, nested and overlapping blocks, first/last address of blocks; oracle as C01 (probes = denotation minus exclusions, both directions: no probe into an excluded address, every non-excluded address still probed). non-trivial: exclusion removes some but not all targets; distinct by case",
		Gen: func(t *rapid.T) c01Case {
			c := c01Case{Cmd: rapid.SampledFrom(c01PacketCmds).Draw(t, "cmd"), Seed: rapid.Int64().Draw(t, "seed"), PortsVia: "p"}
			base := strings.Fields(c.Cmd)[0]
			var addrs []uint32
			if base != "arp" && rapid.IntRange(0, 2).Draw(t, "file") == 0 {
				c.Spec.HasFile = true
				n := rapid.IntRange(2, 40).Draw(t, "nlines")
				net24 := uint32(kit.UniformInt64(t, "net", 0, 1<<24-1)) << 8
				for i := 0; i < n; i++ {
					l := gram.FileLine{IP: net24 | uint32(kit.Uniform(t, "host", 256)), Mapped: rapid.Bool().Draw(t, "mapped")}
					if !cmdPortless(base) {
						l.Port = 1 + kit.Uniform(t, "port", 65535)
					}
					c.Spec.File = append(c.Spec.File, l)
					addrs = append(addrs, l.IP)
				}
			} else {
				bits := rapid.IntRange(24, 29).Draw(t, "bits")
				a := uint32(kit.UniformInt64(t, "base", 0, 1<<32-1))
				c.Spec.CIDR = fmt.Sprintf("%s/%d", gram.U32String(a), bits)
				p, _ := gram.RefIPv4Target(c.Spec.CIDR)
				for i := uint64(0); i < p.Size(); i++ {
					addrs = append(addrs, p.Base+uint32(i))
				}
				if !cmdPortless(base) {
					c.Spec.Ports = []gram.PortRange{{Start: 22, End: 22}, {Start: 8080, End: 8081}}
				}
			}
			ne := rapid.IntRange(1, 6).Draw(t, "nexcl")
			for i := 0; i < ne; i++ {
				a := addrs[kit.Uniform(t, "exaddr", len(addrs))]
				switch rapid.IntRange(0, 4).Draw(t, "exkind") {
				case 0:
					c.Spec.Exclude = append(c.Spec.Exclude, gram.U32String(a))
				case 1:
					c.Spec.Exclude = append(c.Spec.Exclude, gram.U32String(a)+"/32")
				case 2:
					bits := rapid.IntRange(25, 31).Draw(t, "exbits")
					c.Spec.Exclude = append(c.Spec.Exclude, fmt.Sprintf("%s/%d", gram.U32String(a), bits))
				case 3:
					// nested pair
					bits := rapid.IntRange(26, 30).Draw(t, "exbits")
					c.Spec.Exclude = append(c.Spec.Exclude, fmt.Sprintf("%s/%d", gram.U32String(a), bits), fmt.Sprintf("%s/%d", gram.U32String(a), bits+1))
				default:
					// a block that ends/starts exactly at the address
					bits := rapid.IntRange(28, 31).Draw(t, "exbits")
					sz := uint32(1) << uint(32-bits)
					c.Spec.Exclude = append(c.Spec.Exclude, fmt.Sprintf("%s/%d", gram.U32String(a/sz*sz+sz), bits))
				}
			}
			if rapid.IntRange(0, 7).Draw(t, "long-host-list") == 0 {
				// a script-made exclusion list: hundreds of single hosts, one per line (the file is longer than any read buffer)
				for k, n := 0, rapid.IntRange(350, 900).Draw(t, "nhosts"); k < n; k++ {
					c.Spec.Exclude = append(c.Spec.Exclude, gram.U32String(addrs[kit.Uniform(t, "exhost", len(addrs))]))
				}
			}
			if base != "arp" {
				c.VPN = rapid.Bool().Draw(t, "vpn")
			}
			return c
		},
		Check: func(c c01Case) *kit.Verdict {
			v := c01Check(c)
			want, _ := c.Spec.Denote(cmdPortless(strings.Fields(c.Cmd)[0]))
			noEx := c.Spec
			noEx.Exclude = nil
			all, _ := noEx.Denote(cmdPortless(strings.Fields(c.Cmd)[0]))
			v.NonTrivial = len(want) > 0 && len(want) < len(all)
			return v
		},
	})
}

// ---------------------------------------------------------------- exclusion over wide subnets (generator level)

type c02WideCase struct {
	CIDR    string   `json:"cidr"`
	Exclude []string `json:"exclude"`
	Port    bool     `json:"with_one_port"`
	Seed    int64    `json:"rand_seed"`
}

func c02WideCheck(c c02WideCase) *kit.Verdict {
	v := &kit.Verdict{}
	p, ok := gram.RefIPv4Target(c.CIDR)
	if !ok {
		return v.Failf("harness: cidr")
	}
	v.Label("prefix=/%d", p.Bits)
	v.Units = int(p.Size())
	var excl []gram.Prefix
	for _, l := range c.Exclude {
		q, ok := gram.RefIPv4Target(l)
		if !ok {
			return v.Failf("harness: exclusion %q", l)
		}
		excl = append(excl, q)
	}
	container, err := parseExcludeFile(c18Open(strings.Join(c.Exclude, "\n") + "\n"))
	if err != nil {
		return v.Failf("exclusion file refused: %v", err)
	}
	_, ipnet, _ := net.ParseCIDR(c.CIDR)
	r := &scan.Range{DstSubnet: ipnet, SrcIP: net.IP{10, 250, 0, 1}}
	var reqgen scan.RequestGenerator = scan.NewIPRequestGenerator(scan.NewIPGenerator())
	if c.Port {
		r.Ports = []*scan.PortRange{{StartPort: 443, EndPort: 443}}
		reqgen = scan.NewIPPortGenerator(scan.NewIPGenerator(), scan.NewPortGenerator())
	}
	reqgen = scan.NewFilterIPRequestGenerator(reqgen, container)
	rand.Seed(c.Seed)
	ctx, cancel := context.WithCancel(context.Background())
	defer cancel()
	ch, err := reqgen.GenerateRequests(ctx, r)
	if err != nil {
		return v.Failf("generator: %v", err)
	}
	seen := make([]uint8, p.Size())
	for q := range ch {
		if q.Err != nil {
			return v.Failf("%s: error request %v", c.CIDR, q.Err)
		}
		ip4 := q.DstIP.To4()
		if ip4 == nil || !p.Contains(gram.BytesU32(ip4)) {
			return v.Failf("%s: request for %v outside the target", c.CIDR, q.DstIP)
		}
		if seen[gram.BytesU32(ip4)-p.Base] < 3 {
			seen[gram.BytesU32(ip4)-p.Base]++
		}
	}
	nex := 0
	for i := range seen {
		a := p.Base + uint32(i)
		want := uint8(1)
		if gram.Excluded(excl, a) {
			want = 0
			nex++
		}
		if seen[i] != want {
			return v.Failf("target %s with exclusions %v: %s was requested %d times, expected %d (excluded=%v)", c.CIDR, c.Exclude, gram.U32String(a), seen[i], want, want == 0)
		}
	}
	v.NonTrivial = nex > 0 && nex < len(seen)
	return v
}

func TestC02ExclusionWide(t *testing.T) {
	kit.Run(t, kit.Spec[c02WideCase]{
		Prop: "C02",
		Rule: "generator level: real IP (x one port) request generator behind the real exclusion filter (container from parseExcludeFile) over a /18../13 subnet (16 Ki .. 512 Ki destinations) with 1..5 exclusion entries inside it (hosts, /31../14 blocks, first and last block of the subnet); per-address counters: excluded => never requested, every other address exactly once. non-trivial: some but not all addresses excluded; distinct by case",
		Gen: func(t *rapid.T) c02WideCase {
			bits := rapid.SampledFrom([]int{18, 16, 15, 15, 14, 13}).Draw(t, "bits")
			a := uint32(kit.UniformInt64(t, "base", 0, 1<<32-1)) >> uint(32-bits) << uint(32-bits)
			c := c02WideCase{CIDR: fmt.Sprintf("%s/%d", gram.U32String(a), bits), Port: rapid.Bool().Draw(t, "port"), Seed: rapid.Int64().Draw(t, "seed")}
			size := uint32(1) << uint(32-bits)
			for i := 0; i < rapid.IntRange(1, 5).Draw(t, "nexcl"); i++ {
				off := uint32(kit.Uniform(t, "off", int(size)))
				switch rapid.IntRange(0, 4).Draw(t, "kind") {
				case 0:
					c.Exclude = append(c.Exclude, gram.U32String(a+off))
				case 1:
					eb := rapid.IntRange(bits+1, 31).Draw(t, "exbits")
					c.Exclude = append(c.Exclude, fmt.Sprintf("%s/%d", gram.U32String((a+off)>>uint(32-eb)<<uint(32-eb)), eb))
				case 2:
					c.Exclude = append(c.Exclude, fmt.Sprintf("%s/%d", gram.U32String(a+size/2), bits+1)) // the upper half
				case 3:
					c.Exclude = append(c.Exclude, fmt.Sprintf("%s/24", gram.U32String(a+size-256))) // the last /24
				default:
					c.Exclude = append(c.Exclude, fmt.Sprintf("%s/30", gram.U32String(a))) // the first four
				}
			}
			return c
		},
		Check: c02WideCheck,
	})
}

// ---------------------------------------------------------------- a target list next to a subnet argument, with exclusions

// Which addresses "-f list" together with a subnet argument denotes is not settled by the documentation (sx probes the list);
// the exclusion clause does not depend on it: no probe may go to an excluded address, whatever else is or is not probed.
func TestC02ListNextToSubnet(t *testing.T) {
	kit.Run(t, kit.Spec[c01Case]{
		Prop: "C02",
		Rule: "icmp / udp / tcp with a target list (-f, 2..40 lines in one /24, 4- and 16-byte spellings) AND a subnet argument that is disjoint from the list, contains it, or is one of its hosts, plus 1..5 exclusion entries (hosts, CIDRs) taken from the list's addresses. in a fifth of the cases the exclusion entries are split over two files given as one comma-separated --exclude value (refusing that is fine; if it is taken, both files count). Judged: only the exclusion clause - no frame is addressed to an excluded address; the command does not fail. non-trivial: some probe was sent and some listed address is excluded; distinct by case",
		Gen: func(t *rapid.T) c01Case {
			c := c01Case{Cmd: rapid.SampledFrom([]string{"icmp", "udp", "tcp", "tcp fin"}).Draw(t, "cmd"), Seed: rapid.Int64().Draw(t, "seed"), PortsVia: "p"}
			base := strings.Fields(c.Cmd)[0]
			c.Spec.HasFile = true
			net24 := uint32(kit.UniformInt64(t, "net", 1<<24, 223<<16-1)) << 8
			var addrs []uint32
			for i, n := 0, rapid.IntRange(2, 40).Draw(t, "nlines"); i < n; i++ {
				l := gram.FileLine{IP: net24 | uint32(kit.Uniform(t, "host", 256)), Mapped: rapid.Bool().Draw(t, "mapped")}
				c.Spec.File = append(c.Spec.File, l)
				addrs = append(addrs, l.IP)
			}
			if !cmdPortless(base) {
				c.Spec.Ports = []gram.PortRange{{Start: 80, End: 80}, {Start: 443, End: 443}}
			}
			switch rapid.IntRange(0, 3).Draw(t, "argument") {
			case 0:
				c.Spec.CIDR = gram.U32String(net24) + "/24"
			case 1:
				c.Spec.CIDR = gram.U32String(addrs[0])
			default:
				c.Spec.CIDR = fmt.Sprintf("%s/%d", gram.U32String(net24^(1<<20)), rapid.IntRange(20, 30).Draw(t, "bits"))
			}
			for i, n := 0, rapid.IntRange(1, 5).Draw(t, "nexcl"); i < n; i++ {
				a := addrs[kit.Uniform(t, "exaddr", len(addrs))]
				if rapid.Bool().Draw(t, "host") {
					c.Spec.Exclude = append(c.Spec.Exclude, gram.U32String(a))
				} else {
					c.Spec.Exclude = append(c.Spec.Exclude, fmt.Sprintf("%s/%d", gram.U32String(a), rapid.IntRange(25, 32).Draw(t, "exbits")))
				}
			}
			c.VPN = rapid.Bool().Draw(t, "vpn")
			c.ExcludeAsList = len(c.Spec.Exclude) >= 2 && rapid.IntRange(0, 4).Draw(t, "two-files") == 0
			return c
		},
		Check: func(c c01Case) *kit.Verdict {
			v := &kit.Verdict{}
			base := strings.Fields(c.Cmd)[0]
			var excl []gram.Prefix
			for _, l := range c.Spec.Exclude {
				p, ok := gram.RefIPv4Target(l)
				if !ok {
					return v.Failf("harness: exclusion entry %q", l)
				}
				excl = append(excl, p)
			}
			files := &cmdFiles{}
			defer files.cleanup()
			args, stdin := specArgs(c.Cmd, c.Spec, c.PortsVia, false, c.VPN, files, "--exit-delay", "5ms")
			if c.ExcludeAsList {
				// the entries split over two files, given as one comma-separated value: sx may refuse that (it does: no such
				// file); if it takes it, both files are the exclusion list
				for i := range args {
					if args[i] == "--exclude" && i+1 < len(args) {
						h := len(c.Spec.Exclude) / 2
						args[i+1] = files.write("exclude-a", strings.Join(c.Spec.Exclude[:h], "\n")+"\n") + "," +
							files.write("exclude-b", strings.Join(c.Spec.Exclude[h:], "\n")+"\n")
					}
				}
				v.Label("exclude=two-files")
			}
			res := runCmd(cmdRun{Args: args, Stdin: stdin, Seed: c.Seed, Timeout: 120 * time.Second})
			line := "sx " + strings.Join(args, " ")
			if res.Hung {
				return v.Failf("%s did not return within 120s\n%s", line, clipN(res.Goroutines, 3000))
			}
			if res.Err != nil && c.ExcludeAsList {
				for _, s := range res.Sockets {
					if len(s.Writes) > 0 {
						return v.Failf("%s was refused (%v) but %d frames were written", line, res.Err, len(s.Writes))
					}
				}
				v.Label("refused")
				return v
			}
			if res.Err != nil {
				return v.Failf("%s failed: %v\nstderr: %s", line, res.Err, clipN(res.Stderr, 600))
			}
			got, err := probesOnWire(base, res)
			if err != nil {
				return v.Failf("%s: %v", line, err)
			}
			for p, n := range got {
				if gram.Excluded(excl, p.IP) {
					return v.Failf("%s\n%d probe(s) to %s, which the exclusion list %v covers", line, n, gram.U32String(p.IP), c.Spec.Exclude)
				}
			}
			v.Units = gram.Total(got)
			v.NonTrivial = len(got) > 0
			return v
		},
	})
}
