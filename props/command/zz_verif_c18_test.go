//go:build verif

package command

import (
	"bytes"
	"fmt"
	"io"
	"net"
	"strings"
	"testing"
	"time"
	"unicode/utf8"

	kit "verifkit"
	"verifkit/gram"

	"github.com/v-byte-cpu/sx/pkg/scan"
	"github.com/v-byte-cpu/sx/pkg/scan/tcp"
	"pgregory.net/rapid"
)

// C18: option parsing is total, and exact on everything it accepts.
//
// Every test has the same shape: a string is produced either as a canonical rendering of a
// generated value (then it MUST be accepted and give exactly that value), or as a mutation of
// one / an arbitrary string (then it must either be refused or give exactly the reference value).

type c18Case struct {
	Parser    string  `json:"parser"`
	Input     string  `json:"input"`
	Canonical bool    `json:"canonical"`  // input is a canonical rendering of a generated value
	Origin    string  `json:"origin"`     // how the string was made
	Read      c18Read `json:"file_reads"` // how a file delivers its content
}

// c18Read describes the behaviour of the file behind a ports / exclusion file: chunk size of every read, and a read
// error injected once the given number of bytes has been delivered (once = the next read succeeds again).
type c18Read struct {
	Chunk   int    `json:"chunk,omitempty"`    // 0: whole content at once
	FaultAt int    `json:"fault_at,omitempty"` // byte offset, -1 / 0 with Fault=="" means none
	Fault   string `json:"fault,omitempty"`    // "", "once" (transient), "persistent"
}

type c18FaultReader struct {
	data  []byte
	pos   int
	rd    c18Read
	fired bool
}

type c18ReadErr struct{}

func (c18ReadErr) Error() string   { return "read /verif/ports: input/output error (injected)" }
func (c18ReadErr) Timeout() bool   { return true }
func (c18ReadErr) Temporary() bool { return true }

func (r *c18FaultReader) Read(p []byte) (int, error) {
	if r.rd.Fault != "" && r.pos >= r.rd.FaultAt && (!r.fired || r.rd.Fault == "persistent") {
		r.fired = true
		return 0, c18ReadErr{}
	}
	if r.pos >= len(r.data) {
		return 0, io.EOF
	}
	n := len(p)
	if r.rd.Chunk > 0 && n > r.rd.Chunk {
		n = r.rd.Chunk
	}
	if r.rd.Fault != "" && !r.fired && r.pos+n > r.rd.FaultAt {
		n = r.rd.FaultAt - r.pos
	}
	n = copy(p[:n], r.data[r.pos:])
	r.pos += n
	return n, nil
}
func (r *c18FaultReader) Close() error { return nil }

func c18OpenRead(content string, rd c18Read) openFileFunc {
	if rd.Chunk == 0 && rd.Fault == "" {
		return c18Open(content)
	}
	return func() (io.ReadCloser, error) { return &c18FaultReader{data: []byte(content), rd: rd}, nil }
}

func c18GenRead(t *rapid.T, content string) c18Read {
	var rd c18Read
	switch rapid.IntRange(0, 5).Draw(t, "reads") {
	case 0:
		rd.Chunk = rapid.SampledFrom([]int{1, 2, 3, 7, 64, 4096}).Draw(t, "chunk")
	case 1:
		rd.Chunk = rapid.SampledFrom([]int{0, 1, 5, 4096}).Draw(t, "chunk")
		rd.Fault = rapid.SampledFrom([]string{"once", "once", "persistent"}).Draw(t, "fault")
		rd.FaultAt = kit.Uniform(t, "fault-at", len(content)+1)
	}
	return rd
}

func c18Mutate(t *rapid.T, s string, alphabet []rune) string {
	r := []rune(s)
	n := rapid.IntRange(1, 3).Draw(t, "mutations")
	for i := 0; i < n; i++ {
		pos := 0
		if len(r) > 0 {
			pos = kit.Uniform(t, "pos", len(r)+1)
		}
		switch op := rapid.IntRange(0, 4).Draw(t, "op"); {
		case op == 0 && len(r) > 0: // delete
			if pos >= len(r) {
				pos = len(r) - 1
			}
			r = append(r[:pos:pos], r[pos+1:]...)
		case op == 1 && len(r) > 0: // duplicate
			if pos >= len(r) {
				pos = len(r) - 1
			}
			r = append(r[:pos+1:pos+1], r[pos:]...)
		case op == 2 && len(r) > 1: // swap neighbours
			if pos >= len(r)-1 {
				pos = len(r) - 2
			}
			r[pos], r[pos+1] = r[pos+1], r[pos]
		case op == 3: // insert a token duplicate of a slice of itself
			if len(r) > 0 {
				a := kit.Uniform(t, "a", len(r))
				b := a + kit.Uniform(t, "b", len(r)-a) + 1
				piece := append([]rune(nil), r[a:b]...)
				r = append(r[:pos:pos], append(piece, r[pos:]...)...)
			}
		default: // insert from alphabet
			c := rapid.SampledFrom(alphabet).Draw(t, "char")
			r = append(r[:pos:pos], append([]rune{c}, r[pos:]...)...)
		}
	}
	return string(r)
}

func c18Arbitrary(t *rapid.T, alphabet []rune) string {
	switch rapid.IntRange(0, 3).Draw(t, "arb") {
	case 0:
		return rapid.String().Draw(t, "any")
	case 1:
		return string(rapid.SliceOfN(rapid.Byte(), 0, 40).Draw(t, "bytes"))
	default:
		return string(rapid.SliceOfN(rapid.SampledFrom(alphabet), 0, 24).Draw(t, "alpha"))
	}
}

var c18NumAlphabet = []rune("0123456789-,/ +_#.eExX\t\x00٣５abcsmhunµ\n\r")

func c18Open(content string) openFileFunc {
	return func() (io.ReadCloser, error) { return io.NopCloser(strings.NewReader(content)), nil }
}

// ------------------------------------------------------------------ ports (-p and --ports-file)

func c18GenRanges(t *rapid.T) []gram.PortRange {
	n := rapid.SampledFrom([]int{1, 1, 2, 3, 5, 9, 40, 201, 450}).Draw(t, "nranges")
	out := make([]gram.PortRange, n)
	for i := range out {
		a := uint16(kit.UniformInt64(t, "a", 0, 65535))
		b := a
		switch rapid.IntRange(0, 3).Draw(t, "shape") {
		case 0:
		case 1:
			b = uint16(kit.UniformInt64(t, "b", int64(a), 65535))
		case 2:
			b = uint16(kit.UniformInt64(t, "b", 0, 65535))
		default:
			a = rapid.SampledFrom([]uint16{0, 1, 9, 10, 99, 100, 255, 256, 9999, 10000, 65534, 65535}).Draw(t, "edge")
			b = a
		}
		out[i] = gram.PortRange{Start: a, End: b}
	}
	return out
}

func c18RenderList(t *rapid.T, rs []gram.PortRange) string {
	parts := make([]string, len(rs))
	for i, r := range rs {
		parts[i] = gram.RenderPortRange(r, rapid.Bool().Draw(t, "short"))
	}
	return strings.Join(parts, ",")
}

func c18RenderPortsFile(t *rapid.T, rs []gram.PortRange) string {
	var sb strings.Builder
	for _, r := range rs {
		switch rapid.IntRange(0, 5).Draw(t, "decor") {
		case 0:
			sb.WriteString("# a comment line\n")
		case 1:
			sb.WriteString("\n")
		case 2:
			sb.WriteString("   \n")
		}
		line := gram.RenderPortRange(r, rapid.Bool().Draw(t, "short"))
		switch rapid.IntRange(0, 3).Draw(t, "pad") {
		case 0:
			line = "  " + line + "   "
		case 1:
			line += " # trailing comment 80-90"
		}
		sb.WriteString(line)
		sb.WriteString("\n")
	}
	s := sb.String()
	if rapid.Bool().Draw(t, "no-final-newline") {
		s = strings.TrimSuffix(s, "\n")
	}
	return s
}

func c18SameRanges(got []*scan.PortRange, want []gram.PortRange) error {
	if len(got) != len(want) {
		return fmt.Errorf("%d ranges, reference has %d", len(got), len(want))
	}
	for i := range got {
		if got[i] == nil || got[i].StartPort != want[i].Start || got[i].EndPort != want[i].End {
			return fmt.Errorf("range %d is %+v, reference %+v", i, got[i], want[i])
		}
	}
	return nil
}

func c18CheckPorts(c c18Case) *kit.Verdict {
	v := &kit.Verdict{NonTrivial: !c.Canonical || strings.ContainsAny(c.Input, ",-")}
	v.Label("origin=%s", c.Origin)
	var got []*scan.PortRange
	var err error
	var ref []gram.PortRange
	var ok bool
	if c.Parser == "ports-file" {
		got, err = parsePortsFile(c18OpenRead(c.Input, c.Read))
		if c.Read.Fault != "" {
			v.Label("read-fault=%s", c.Read.Fault)
		} else if c.Read.Chunk > 0 {
			v.Label("short-reads")
		}
		ref, ok = gram.RefPortsFile(c.Input)
	} else {
		got, err = parsePortRanges(c.Input)
		ref, ok = gram.RefPortList(c.Input)
	}
	if err != nil {
		v.Label("refused")
		if c.Canonical && c.Read.Fault == "" {
			return v.Failf("canonical rendering refused: %v", err)
		}
		return v
	}
	v.Label("accepted")
	if c.Read.Fault == "persistent" && c.Read.FaultAt < len(c.Input) {
		return v.Failf("accepted %q as %s although the file could not be read beyond byte %d", clip(c.Input), renderGot(got), c.Read.FaultAt)
	}
	if !ok {
		return v.Failf("accepted %q (reads %+v) as %s, but it is not in the reference language", clip(c.Input), c.Read, renderGot(got))
	}
	if e := c18SameRanges(got, ref); e != nil {
		return v.Failf("accepted %q: %v", clip(c.Input), e)
	}
	return v
}

func clip(s string) string {
	if len(s) > 200 {
		return s[:100] + fmt.Sprintf("...(%d bytes)...", len(s)) + s[len(s)-60:]
	}
	return s
}

func renderGot(rs []*scan.PortRange) string {
	var parts []string
	for _, r := range rs {
		if r == nil {
			parts = append(parts, "nil")
		} else {
			parts = append(parts, fmt.Sprintf("%d-%d", r.StartPort, r.EndPort))
		}
		if len(parts) > 8 {
			parts = append(parts, "...")
			break
		}
	}
	return strings.Join(parts, ",")
}

func TestC18Ports(t *testing.T) {
	kit.Run(t, kit.Spec[c18Case]{
		Prop: "C18",
		Rule: "port lists (-p) and ports files: canonical renderings of generated range lists (1..450 ranges, any bounds 0..65535, files with comments/blank lines/padding) must parse back exactly; mutated renderings (delete/duplicate/swap/insert incl. signs, spaces, unicode digits, NUL, extra separators, >64KiB lines) and arbitrary strings must be refused or equal the reference parse. non-trivial: non-canonical or multi-token; distinct by input",
		Gen: func(t *rapid.T) c18Case {
			c := c18Case{Parser: rapid.SampledFrom([]string{"ports", "ports-file"}).Draw(t, "parser")}
			switch rapid.IntRange(0, 5).Draw(t, "origin") {
			case 0, 1:
				rs := c18GenRanges(t)
				c.Canonical, c.Origin = true, "canonical"
				if c.Parser == "ports-file" {
					c.Input = c18RenderPortsFile(t, rs)
				} else {
					c.Input = c18RenderList(t, rs)
				}
			case 2, 3:
				rs := c18GenRanges(t)
				if len(rs) > 9 {
					rs = rs[:9]
				}
				base := c18RenderList(t, rs)
				if c.Parser == "ports-file" {
					base = c18RenderPortsFile(t, rs)
				}
				c.Input, c.Origin = c18Mutate(t, base, c18NumAlphabet), "mutated"
			case 4:
				c.Input, c.Origin = c18Arbitrary(t, c18NumAlphabet), "arbitrary"
			default:
				// an over-long line (comment, padding or digits) in the middle of good material
				rs := c18GenRanges(t)
				if len(rs) > 5 {
					rs = rs[:5]
				}
				long := rapid.SampledFrom([]string{"#" + strings.Repeat("x", 70000), strings.Repeat(" ", 66000) + "7",
					"8" + strings.Repeat(" ", 66000), strings.Repeat("9", 65537), "10 #" + strings.Repeat("y", 65536)}).Draw(t, "long")
				if c.Parser == "ports-file" {
					c.Input = "1-2\n" + long + "\n" + c18RenderPortsFile(t, rs)
				} else {
					c.Input = "1-2," + strings.TrimLeft(long, "#") + "," + c18RenderList(t, rs)
				}
				c.Origin = "over-long"
			}
			if c.Parser == "ports-file" {
				c.Read = c18GenRead(t, c.Input)
			}
			return c
		},
		Check: c18CheckPorts,
	})
}

// ------------------------------------------------------------------ rate limit

var c18Units = []string{"ns", "us", "µs", "ms", "s", "m", "h"}

func c18CheckRate(c c18Case) *kit.Verdict {
	v := &kit.Verdict{NonTrivial: true}
	v.Label("origin=%s", c.Origin)
	cnt, win, err := parseRateLimit(c.Input)
	rc, rw, ok := gram.RefRate(c.Input)
	if err != nil {
		v.Label("refused")
		if c.Canonical {
			return v.Failf("canonical rendering %q refused: %v", c.Input, err)
		}
		return v
	}
	v.Label("accepted")
	if !ok {
		return v.Failf("accepted %q as %d per %v, but it is not in the reference language", clip(c.Input), cnt, win)
	}
	if cnt != rc || win != rw {
		return v.Failf("accepted %q as %d per %v, reference says %d per %v", clip(c.Input), cnt, win, rc, rw)
	}
	return v
}

func TestC18Rate(t *testing.T) {
	kit.Run(t, kit.Spec[c18Case]{
		Prop: "C18",
		Rule: "--rate strings: canonical renderings COUNT, COUNT/UNIT, COUNT/NUMBERUNIT (integer, fractional and compound durations) must parse back exactly; mutated and arbitrary strings must be refused or equal the reference (count per written window, time.ParseDuration semantics; bare unit = one of it). non-trivial: always; distinct by input",
		Gen: func(t *rapid.T) c18Case {
			count := rapid.SampledFrom([]int64{0, 1, 2, 7, 50, 1000, 65536, 1<<31 - 1, -1}).Draw(t, "count")
			if count < 0 {
				count = rapid.Int64Range(0, 1<<31-1).Draw(t, "count2")
			}
			var s string
			switch rapid.IntRange(0, 4).Draw(t, "form") {
			case 0:
				s = fmt.Sprintf("%d", count)
			case 1:
				s = fmt.Sprintf("%d/%s", count, rapid.SampledFrom(c18Units).Draw(t, "unit"))
			case 2:
				s = fmt.Sprintf("%d/%d%s", count, rapid.IntRange(0, 5000).Draw(t, "n"), rapid.SampledFrom(c18Units).Draw(t, "unit"))
			case 3:
				s = fmt.Sprintf("%d/%d.%d%s", count, rapid.IntRange(0, 50).Draw(t, "n"), rapid.IntRange(0, 999).Draw(t, "frac"), rapid.SampledFrom(c18Units).Draw(t, "unit"))
			default:
				s = fmt.Sprintf("%d/%dm%ds", count, rapid.IntRange(0, 59).Draw(t, "m"), rapid.IntRange(0, 59).Draw(t, "s"))
			}
			c := c18Case{Parser: "rate", Input: s, Canonical: true, Origin: "canonical"}
			switch rapid.IntRange(0, 3).Draw(t, "origin") {
			case 0:
			case 1, 2:
				c.Input, c.Canonical, c.Origin = c18Mutate(t, s, c18NumAlphabet), false, "mutated"
			default:
				c.Input, c.Canonical, c.Origin = c18Arbitrary(t, c18NumAlphabet), false, "arbitrary"
			}
			return c
		},
		Check: c18CheckRate,
		Exhaustive: func(yield func(c18Case) bool) {
			for _, s := range []string{"", "/", "5/", "/s", "5/.5s", "5/0.5s", "5/-1s", "-5/s", "5/s/s", "5/1", "5/1s2", " 5/s", "5/ s", "5 /s",
				"5/1e3s", "5/+1s", "5/µs", "5/μs", "5/us", "5/1h1m1s1ms", "2147483648/s", "5/9999999999999h", "0/0s", "+5/s", "-0/s", "5/S", "5/1S", "٥/s"} {
				yield(c18Case{Parser: "rate", Input: s, Origin: "listed"})
			}
		},
	})
}

// ------------------------------------------------------------------ TCP flags / IP flags

type c18FlagsCase struct {
	Parser    string `json:"parser"` // tcp-flags | ip-flags
	Input     string `json:"input"`
	Canonical bool   `json:"canonical"`
	Bits      uint16 `json:"bits"`
	Origin    string `json:"origin"`
}

func c18TCPBits(names []string) (uint16, error) {
	var opts []tcp.PacketFillerOption
	for _, n := range names {
		o, ok := tcpPacketFlagOptions[n]
		if !ok {
			return 0, fmt.Errorf("parsed name %q has no filler option", n)
		}
		opts = append(opts, o)
	}
	f := tcp.NewPacketFiller(opts...)
	var bits uint16
	for i, b := range []bool{f.FIN, f.SYN, f.RST, f.PSH, f.ACK, f.URG, f.ECE, f.CWR, f.NS} {
		if b {
			bits |= 1 << uint(i)
		}
	}
	return bits, nil
}

func c18CheckFlags(c c18FlagsCase) *kit.Verdict {
	v := &kit.Verdict{NonTrivial: c.Input != ""}
	v.Label("parser=%s origin=%s", c.Parser, c.Origin)
	var got, ref uint16
	var err error
	var ok bool
	if c.Parser == "tcp-flags" {
		var names []string
		if names, err = parseTCPFlags(c.Input); err == nil {
			got, err = c18TCPBits(names)
			if err != nil {
				return v.Failf("%v", err)
			}
		}
		ref, ok = gram.RefTCPFlags(c.Input)
	} else {
		var g uint8
		g, err = parseIPFlags(c.Input)
		got = uint16(g)
		var r uint8
		r, ok = gram.RefIPFlags(c.Input)
		ref = uint16(r)
	}
	if err != nil {
		if c.Canonical {
			return v.Failf("canonical rendering %q refused: %v", c.Input, err)
		}
		return v
	}
	if !ok {
		return v.Failf("accepted %q as bits %09b, but it is not a flag list", clip(c.Input), got)
	}
	if got != ref || (c.Canonical && got != c.Bits) {
		return v.Failf("accepted %q as bits %09b, reference %09b", clip(c.Input), got, ref)
	}
	return v
}

func c18RenderFlags(names []string, bits uint16, order []int, caseSeed uint64) string {
	var parts []string
	for _, i := range order {
		if i < len(names) && bits&(1<<uint(i)) != 0 {
			n := []byte(names[i])
			for k := range n {
				if caseSeed&1 == 1 {
					n[k] -= 32
				}
				caseSeed = caseSeed>>1 | caseSeed<<63
			}
			parts = append(parts, string(n))
		}
	}
	return strings.Join(parts, ",")
}

var c18IPFlagNames = []string{"mf", "df", "evil"} // index = bit number

func TestC18Flags(t *testing.T) {
	kit.Run(t, kit.Spec[c18FlagsCase]{
		Prop: "C18",
		Rule: "TCP flag lists and IP flag lists: all 2^9 and 2^3 subsets exhaustively (canonical order, lower case) plus drawn subsets in drawn order and letter case must give exactly their own bits (TCP: through the command's name->filler-option table into the filler's fields); mutated/arbitrary strings must be refused or equal the reference. non-trivial: non-empty input; distinct by input",
		Gen: func(t *rapid.T) c18FlagsCase {
			c := c18FlagsCase{Parser: rapid.SampledFrom([]string{"tcp-flags", "ip-flags"}).Draw(t, "parser")}
			names, n := gram.TCPFlagNames, 9
			if c.Parser == "ip-flags" {
				names, n = c18IPFlagNames, 3
			}
			idx := make([]int, n)
			for i := range idx {
				idx[i] = i
			}
			c.Bits = uint16(kit.Uniform(t, "bits", 1<<uint(n)))
			s := c18RenderFlags(names, c.Bits, rapid.Permutation(idx).Draw(t, "order"), rapid.Uint64().Draw(t, "case"))
			c.Input, c.Canonical, c.Origin = s, true, "canonical"
			switch rapid.IntRange(0, 4).Draw(t, "origin") {
			case 0:
			case 4:
				// one letter replaced by a non-ASCII letter that Unicode case mapping / folding sends to it
				// (KELVIN SIGN -> k, I WITH DOT ABOVE -> i, LONG S ~ s, DOTLESS I ~ I): not a flag name
				rs := []rune(s)
				var pos []int
				for i, r := range rs {
					if strings.ContainsRune("kKiIsS", r) {
						pos = append(pos, i)
					}
				}
				if len(pos) > 0 {
					i := pos[kit.Uniform(t, "confusable-at", len(pos))]
					switch rs[i] {
					case 'k', 'K':
						rs[i] = 0x212a
					case 'i', 'I':
						rs[i] = rapid.SampledFrom([]rune{0x130, 0x131}).Draw(t, "i")
					default:
						rs[i] = 0x17f
					}
					c.Input, c.Canonical, c.Origin = string(rs), false, "confusable"
				}
			case 1, 2:
				c.Input, c.Canonical, c.Origin = c18Mutate(t, s, []rune("synackfinrstpshurgececwrnsdfevilmf, ,,\x00SYN\tſK")), false, "mutated"
			default:
				c.Input, c.Canonical, c.Origin = c18Arbitrary(t, []rune("synackfinrstpshurgececwrnsdfevilmf,SYNDFſK")), false, "arbitrary"
			}
			return c
		},
		Check: c18CheckFlags,
		Exhaustive: func(yield func(c18FlagsCase) bool) {
			order := []int{0, 1, 2, 3, 4, 5, 6, 7, 8}
			for b := 0; b < 512; b++ {
				yield(c18FlagsCase{Parser: "tcp-flags", Input: c18RenderFlags(gram.TCPFlagNames, uint16(b), order, 0), Canonical: true, Bits: uint16(b), Origin: "exhaustive"})
				yield(c18FlagsCase{Parser: "tcp-flags", Input: c18RenderFlags(gram.TCPFlagNames, uint16(b), order, ^uint64(0)), Canonical: true, Bits: uint16(b), Origin: "exhaustive"})
			}
			for b := 0; b < 8; b++ {
				yield(c18FlagsCase{Parser: "ip-flags", Input: c18RenderFlags(c18IPFlagNames, uint16(b), order[:3], 0), Canonical: true, Bits: uint16(b), Origin: "exhaustive"})
				yield(c18FlagsCase{Parser: "ip-flags", Input: c18RenderFlags(c18IPFlagNames, uint16(b), []int{2, 1, 0}, 0x5555), Canonical: true, Bits: uint16(b), Origin: "exhaustive"})
			}
		},
	})
}

// ------------------------------------------------------------------ payload

type c18PayloadCase struct {
	Input     string `json:"input"`
	Canonical bool   `json:"canonical"`
	Value     []byte `json:"value"`
	Origin    string `json:"origin"`
	// the input again, as bytes: JSON strings cannot carry raw non-UTF-8 bytes, a replay file would lose them
	InputBytes []byte `json:"input_bytes,omitempty"`
}

func TestC18Payload(t *testing.T) {
	kit.Run(t, kit.Spec[c18PayloadCase]{
		Prop: "C18",
		Rule: "--payload strings: every generated byte string rendered as \\xHH, octal, printable-literal mix or Go's own literal rendering (\\u / \\U escapes; byte strings and UTF-8 text with control, C1, separator, BOM and non-BMP runes) must parse back to exactly those bytes; mutated renderings and arbitrary strings must be refused or equal the reference unescape (Go string-literal escapes). raw bytes, also non-UTF-8 ones as a shell's $'..' passes them, denote themselves. non-trivial: non-empty; distinct by input",
		Gen: func(t *rapid.T) c18PayloadCase {
			n := rapid.SampledFrom([]int{0, 1, 2, 3, 16, 255, 1460, -1}).Draw(t, "len")
			if n < 0 {
				n = rapid.IntRange(0, 300).Draw(t, "len2")
			}
			val := rapid.SliceOfN(rapid.Byte(), n, n).Draw(t, "bytes")
			if rapid.IntRange(0, 2).Draw(t, "text") == 0 {
				// bytes that are (mostly) UTF-8 text with runes from every class: controls, C1, NBSP, BOM, separators, non-BMP
				val = val[:0]
				for i := 0; i < n; i++ {
					r := rapid.SampledFrom([]rune{0, 7, 0x1b, 'a', '"', '\\', '\'', 0x7f, 0x80, 0x85, 0xa0, 0xad, 0xe9, 0x2028, 0x2029, 0xfeff, 0xfffd, 0xffff, 0x1f600, 0x10ffff}).Draw(t, "rune")
					val = utf8.AppendRune(val, r)
				}
			}
			s := gram.RenderPayload(val, rapid.IntRange(0, 4).Draw(t, "mode"))
			c := c18PayloadCase{Input: s, Canonical: true, Value: val, Origin: "canonical"}
			switch rapid.IntRange(0, 4).Draw(t, "origin") {
			case 0, 1:
			case 4:
				// the bytes written as they are (what a shell's $'\xff...' hands over): only backslash, quote and newline escaped
				var sb strings.Builder
				for _, b := range val {
					switch b {
					case '\\':
						sb.WriteString(`\\`)
					case '"':
						sb.WriteString(`\"`)
					case '\n':
						sb.WriteString(`\n`)
					default:
						sb.WriteByte(b)
					}
				}
				c.Input, c.Canonical, c.Origin = sb.String(), false, "raw-bytes"
				c.InputBytes = []byte(c.Input)
			case 2:
				c.Input, c.Canonical, c.Origin = c18Mutate(t, s, []rune(`\x0123456789abcdefABCDEFuUntr"'`+"\n\x00 é ")), false, "mutated"
			default:
				c.Input, c.Canonical, c.Origin = c18Arbitrary(t, []rune(`\x0123456789abcdefuUntr"'`+"\n\x00 é")), false, "arbitrary"
			}
			return c
		},
		Check: c18CheckPayload,
	})
}

func c18CheckPayload(c c18PayloadCase) *kit.Verdict {
	if len(c.InputBytes) > 0 {
		c.Input = string(c.InputBytes)
	}
	v := &kit.Verdict{NonTrivial: c.Input != ""}
	v.Label("origin=%s", c.Origin)
	got, err := parsePacketPayload(c.Input)
	ref, tri := gram.RefPayload(c.Input)
	if err != nil {
		v.Label("refused")
		if c.Canonical {
			return v.Failf("canonical rendering %q refused: %v", clip(c.Input), err)
		}
		return v
	}
	v.Label("accepted")
	if c.Canonical && !bytes.Equal(got, c.Value) {
		return v.Failf("rendering %q of %x parsed back to %x", clip(c.Input), c.Value, got)
	}
	switch tri {
	case gram.Undecided:
		v.Label("dont-care-raw-non-utf8")
	case gram.Reject:
		return v.Failf("accepted %q as %x, but the reference refuses it", clip(c.Input), got)
	default:
		if !bytes.Equal(got, ref) {
			return v.Failf("accepted %q as %x, reference %x", clip(c.Input), got, ref)
		}
	}
	return v
}

// ------------------------------------------------------------------ exclusion file (parse level; semantics in C02)

type c18ExcludeCase struct {
	Content   string   `json:"content"`
	Canonical bool     `json:"canonical"`
	Origin    string   `json:"origin"`
	Probe     []uint32 `json:"extra_probe_addresses"`
	Read      c18Read  `json:"file_reads"`
}

func c18GenPrefixes(t *rapid.T, max int) []gram.Prefix {
	n := rapid.IntRange(1, max).Draw(t, "nprefix")
	out := make([]gram.Prefix, 0, n)
	for i := 0; i < n; i++ {
		var a uint32
		if len(out) > 0 && rapid.IntRange(0, 2).Draw(t, "near") == 0 {
			// nested in / adjacent to an earlier one
			p := out[kit.Uniform(t, "which", len(out))]
			a = p.Base + uint32(kit.UniformInt64(t, "delta", -2, int64(p.Size()%(1<<31))+2))
		} else {
			a = uint32(kit.UniformInt64(t, "addr", 0, 1<<32-1))
		}
		bits := rapid.SampledFrom([]int{32, 32, 31, 30, 29, 28, 24, 23, 20, 16, 12, 8, 4, 1, 0, -1}).Draw(t, "bits")
		if bits < 0 {
			bits = rapid.IntRange(0, 32).Draw(t, "bits2")
		}
		p, _ := gram.RefIPv4Target(fmt.Sprintf("%s/%d", gram.U32String(a), bits))
		out = append(out, p)
	}
	return out
}

func c18RenderExclude(t *rapid.T, ps []gram.Prefix) string {
	var sb strings.Builder
	for _, p := range ps {
		switch rapid.IntRange(0, 6).Draw(t, "decor") {
		case 0:
			sb.WriteString("# RFC 1918 and friends 10.0.0.0/8\n")
		case 1:
			sb.WriteString("\n")
		}
		line := p.String()
		if p.Bits == 32 && rapid.Bool().Draw(t, "host-form") {
			line = gram.U32String(p.Addr)
		}
		switch rapid.IntRange(0, 3).Draw(t, "pad") {
		case 0:
			line = " " + line + "  "
		case 1:
			line += " # comment"
		}
		sb.WriteString(line + "\n")
	}
	s := sb.String()
	if rapid.Bool().Draw(t, "no-final-newline") {
		s = strings.TrimSuffix(s, "\n")
	}
	return s
}

// c18ExcludeAgrees compares the container with the reference on boundary and extra addresses, in both address forms.
func c18ExcludeAgrees(excl scan.IPContainer, ref []gram.Prefix, extra []uint32) error {
	probe := append([]uint32{0, 1, 0xffffffff, 0x7f000001}, extra...)
	for _, p := range ref {
		last := p.Base + uint32(p.Size()-1)
		probe = append(probe, p.Base-1, p.Base, p.Base+1, last-1, last, last+1, p.Addr)
	}
	for _, a := range probe {
		b := gram.U32Bytes(a)
		want := gram.Excluded(ref, a)
		for _, ip := range []net.IP{net.IP(b[:]), net.IP(b[:]).To16()} {
			got, err := excl.Contains(ip)
			if err != nil {
				return fmt.Errorf("Contains(%v [%d bytes]) failed: %v", ip, len(ip), err)
			}
			if got != want {
				return fmt.Errorf("address %s (%d-byte form): excluded=%v, reference says %v", gram.U32String(a), len(ip), got, want)
			}
		}
	}
	return nil
}

func c18CheckExclude(c c18ExcludeCase) *kit.Verdict {
	v := &kit.Verdict{NonTrivial: true}
	v.Label("origin=%s", c.Origin)
	excl, err := parseExcludeFile(c18OpenRead(c.Content, c.Read))
	ref, allV4 := gram.RefExcludeFile(c.Content)
	if c.Read.Fault != "" {
		v.Label("read-fault=%s", c.Read.Fault)
	} else if c.Read.Chunk > 0 {
		v.Label("short-reads")
	}
	if err == nil && c.Read.Fault == "persistent" && c.Read.FaultAt < len(c.Content) {
		return v.Failf("exclusion file accepted although it could not be read beyond byte %d:\n%s", c.Read.FaultAt, clip(c.Content))
	}
	if err != nil {
		v.Label("refused")
		if c.Canonical && c.Read.Fault == "" {
			return v.Failf("canonical exclusion file refused: %v\n%s", err, clip(c.Content))
		}
		return v
	}
	v.Label("accepted")
	if !allV4 {
		// a line that is not an IPv4 host/CIDR was accepted (e.g. an IPv6 prefix): it denotes nothing in the
		// IPv4 space, so the IPv4 lines alone must describe the result
		v.Label("accepted-with-non-ipv4-line")
	}
	if excl == nil {
		if len(ref) == 0 {
			return v
		}
		return v.Failf("no container returned for %q", clip(c.Content))
	}
	if e := c18ExcludeAgrees(excl, ref, c.Probe); e != nil {
		return v.Failf("%v\nfile:\n%s", e, clip(c.Content))
	}
	return v
}

var c18IPAlphabet = []rune("0123456789./: #abcdef\t\x00-٣")

func TestC18Exclude(t *testing.T) {
	kit.Run(t, kit.Spec[c18ExcludeCase]{
		Prop: "C18",
		Rule: "exclusion files: canonical files of generated prefixes (hosts, CIDRs /0../32, nested/adjacent, base not aligned, comments, blank lines, padding) must be accepted and exclude exactly the reference set (checked on every block boundary +-1 and drawn addresses, 4- and 16-byte forms); mutated files, IPv6 lines, over-long lines and arbitrary bytes must be refused or agree with the reference over the IPv4 lines. non-trivial: always; distinct by content",
		Gen: func(t *rapid.T) c18ExcludeCase {
			ps := c18GenPrefixes(t, rapid.SampledFrom([]int{1, 3, 8, 40}).Draw(t, "max"))
			s := c18RenderExclude(t, ps)
			c := c18ExcludeCase{Content: s, Canonical: true, Origin: "canonical"}
			for i := 0; i < 6; i++ {
				c.Probe = append(c.Probe, uint32(kit.UniformInt64(t, "probe", 0, 1<<32-1)))
			}
			switch rapid.IntRange(0, 5).Draw(t, "origin") {
			case 0, 1:
			case 2:
				c.Content, c.Canonical, c.Origin = c18Mutate(t, s, c18IPAlphabet), false, "mutated"
			case 3:
				v6 := rapid.SampledFrom([]string{"::1", "::/0", "::/96", "2001:db8::/32", "::ffff:10.0.0.0/104", "::ffff:1.2.3.4", "fe80::1%eth0", "::ffff:1.2.3.0/120", "::1.2.3.4/127"}).Draw(t, "v6")
				c.Content, c.Canonical, c.Origin = s+"\n"+v6+"\n", false, "ipv6-line"
			case 4:
				long := rapid.SampledFrom([]string{"#" + strings.Repeat("x", 70000), strings.Repeat(" ", 66000) + "9.9.9.9", "8.8.8.8" + strings.Repeat(" ", 66000)}).Draw(t, "long")
				c.Content, c.Canonical, c.Origin = "1.1.1.1\n"+long+"\n"+s, false, "over-long"
			default:
				c.Content, c.Canonical, c.Origin = c18Arbitrary(t, c18IPAlphabet), false, "arbitrary"
			}
			c.Read = c18GenRead(t, c.Content)
			return c
		},
		Check: c18CheckExclude,
	})
}

var _ = time.Second
