//go:build verif

package command

import (
	"bytes"
	"context"
	"encoding/json"
	"fmt"
	"io"
	"net"
	"os"
	"path/filepath"
	"runtime"
	"strings"
	"sync"
	"sync/atomic"
	"syscall"
	"testing"
	"time"

	kit "verifkit"

	"github.com/v-byte-cpu/sx/command/log"
	"github.com/v-byte-cpu/sx/pkg/scan"
	"github.com/v-byte-cpu/sx/pkg/scan/socks5"
	"pgregory.net/rapid"
)

// C08: application scans - each target probed once, each outcome reported once.

type c08Case struct {
	N        int    `json:"targets"`
	Outcome  []byte `json:"outcomes"` // per target: 'p' positive, 'n' negative, 'e' probe error, 'I' bad ip line, 'P' bad port line
	Latency  []byte `json:"latency"`  // per target: 0 none, 1 Gosched, 2 100us, 3 2ms, 4 TailMs (slow positive probes at the end of the list: the scan outlasts the exit delay)
	TailMs   int    `json:"slow_tail_ms"`
	ErrUs    int    `json:"error_sink_delay_us"` // a slow error sink (terminal, pipe): the backlog outlasts the exit delay
	Workers  int    `json:"workers"`
	Rate     bool   `json:"rate_limiter"`
	RateStr  string `json:"rate,omitempty"` // a specific (slow) rate instead of the unnoticeable one of Rate
	Direct   bool   `json:"direct_engine"`  // observe the engine's done channel instead of going through startScanEngine
	ExitMs   int    `json:"exit_delay_ms"`
	PortsArg bool   `json:"addresses_x_ports_mode"`
	StallMs  int    `json:"writer_stalls_on_first_write_ms"`
}

func c08WorkDir() string {
	d := os.Getenv("VERIF_WORK")
	if d == "" {
		d = os.TempDir()
	}
	return d
}

type c08Scanner struct {
	c         c08Case
	mu        sync.Mutex
	calls     map[int]int
	inflight  int64
	completed int64
	unknown   []string
}

// the error values real probes produce: timeouts, refusals, resets, cancellations
func c08ProbeErr(i int) error {
	switch i % 6 {
	case 1:
		return fmt.Errorf("probe failure #%d: %w", i, context.DeadlineExceeded)
	case 2:
		return &net.OpError{Op: "dial", Net: "tcp", Err: fmt.Errorf("probe failure #%d: %w", i, os.ErrDeadlineExceeded)}
	case 3:
		return fmt.Errorf("probe failure #%d: %w", i, syscall.ECONNRESET)
	case 4:
		return fmt.Errorf("probe failure #%d: %w", i, context.Canceled)
	case 5:
		return fmt.Errorf("probe failure #%d: %w", i, io.EOF)
	}
	return fmt.Errorf("probe failure #%d", i)
}

func c08Index(r *scan.Request) int {
	ip := r.DstIP.To4()
	if ip == nil {
		return -1
	}
	return int(ip[1])<<16 | int(ip[2])<<8 | int(ip[3])
}

func (s *c08Scanner) Scan(ctx context.Context, r *scan.Request) (scan.Result, error) {
	atomic.AddInt64(&s.inflight, 1)
	defer func() {
		atomic.AddInt64(&s.completed, 1)
		atomic.AddInt64(&s.inflight, -1)
	}()
	i := c08Index(r)
	s.mu.Lock()
	if i < 0 || i >= s.c.N || int(r.DstPort) != 1+i%60000 {
		s.unknown = append(s.unknown, fmt.Sprintf("%v:%d", r.DstIP, r.DstPort))
		s.mu.Unlock()
		return nil, nil
	}
	s.calls[i]++
	s.mu.Unlock()
	switch s.c.Latency[i] {
	case 1:
		runtime.Gosched()
	case 2:
		time.Sleep(100 * time.Microsecond)
	case 3:
		time.Sleep(2 * time.Millisecond)
	case 4:
		time.Sleep(time.Duration(s.c.TailMs) * time.Millisecond)
	}
	switch s.c.Outcome[i] {
	case 'p':
		return &socks5.ScanResult{ScanType: "socks", Version: 5, IP: r.DstIP.String(), Port: r.DstPort}, nil
	case 'e':
		return nil, c08ProbeErr(i)
	}
	return nil, nil
}

type c08Logger struct {
	delay time.Duration
	real  log.Logger
	mu    sync.Mutex
	errs  map[string]int
}

func (l *c08Logger) Error(err error) {
	if l.delay > 0 {
		time.Sleep(l.delay)
	}
	l.mu.Lock()
	l.errs[err.Error()]++
	l.mu.Unlock()
}

func (l *c08Logger) LogResults(ctx context.Context, results <-chan scan.Result) {
	l.real.LogResults(ctx, results)
}

type c08Writer struct {
	mu    sync.Mutex
	buf   bytes.Buffer
	stall time.Duration
	once  sync.Once
}

func (w *c08Writer) Write(p []byte) (int, error) {
	// a consumer that is busy for a moment when the first record arrives: the result buffers fill up
	w.once.Do(func() { time.Sleep(w.stall) })
	w.mu.Lock()
	defer w.mu.Unlock()
	return w.buf.Write(p)
}

func c08Check(c c08Case) *kit.Verdict {
	v := &kit.Verdict{Units: c.N}
	v.Label("workers=%s", bucket(c.Workers, 1, 2, 10, 100, 1000))
	v.Label("n=%s", bucket(c.N, 0, 1, 101, 1001, 2001))
	if c.Direct {
		v.Label("direct-engine")
	} else {
		v.Label("startScanEngine")
	}
	kinds := map[byte]int{}
	// target file
	var sb strings.Builder
	wantCalls, wantPos := 0, map[string]int{}
	wantErr := map[string]int{}
	for i := 0; i < c.N; i++ {
		ip := fmt.Sprintf("10.%d.%d.%d", byte(i>>16), byte(i>>8), byte(i))
		port := 1 + i%60000
		kinds[c.Outcome[i]]++
		switch c.Outcome[i] {
		case 'I':
			fmt.Fprintf(&sb, `{"ip":"10.%d.%d.%d.","port":%d}`+"\n", byte(i>>16), byte(i>>8), byte(i), port)
			wantErr[scan.ErrIP.Error()]++
			continue
		case 'P':
			fmt.Fprintf(&sb, `{"ip":"%s","port":%d}`+"\n", ip, []int{0, 65536, -1, 70000}[i%4])
			wantErr[scan.ErrPort.Error()]++
			continue
		case 'p':
			wantPos[fmt.Sprintf("%s:%d", ip, port)]++
		case 'e':
			wantErr[c08ProbeErr(i).Error()]++
		}
		wantCalls++
		fmt.Fprintf(&sb, `{"ip":"%s","port":%d}`+"\n", ip, port)
	}
	v.NonTrivial = c.N > 100 && c.Workers >= 2 && kinds['p'] > 0 && kinds['n'] > 0 && kinds['e'] > 0
	f, err := os.CreateTemp(c08WorkDir(), "c08-targets-*.jsonl")
	if err != nil {
		return &kit.Verdict{Inconclusive: true}
	}
	defer os.Remove(f.Name())
	f.WriteString(sb.String())
	f.Close()

	ctx, cancel := context.WithCancel(context.Background())
	defer cancel()
	var jw *jitterWatch
	defer func() {
		if jw != nil {
			jw.Stop()
		}
	}()
	o := &genericScanCmdOpts{ipFile: f.Name(), workers: c.Workers}
	if c.Rate {
		o.rateCount, o.rateWindow = 1000000, time.Second
	}
	if c.RateStr != "" {
		n, w, err := parseRateLimit(c.RateStr)
		if err != nil {
			return v.Failf("harness: rate %q: %v", c.RateStr, err)
		}
		o.rateCount, o.rateWindow = n, w
		v.Label("slow-rate")
	}
	sc := &c08Scanner{c: c, calls: map[int]int{}}
	engine := o.newScanEngine(ctx, sc)
	out := &c08Writer{stall: time.Duration(c.StallMs) * time.Millisecond}
	if c.StallMs > 0 {
		v.Label("writer-stall")
	}
	if c.TailMs > 0 {
		v.Label("slow-positive-tail")
	}
	real, err := log.NewLogger(out, "c08", log.JSON())
	if err != nil {
		return v.Failf("logger: %v", err)
	}
	lg := &c08Logger{real: real, errs: map[string]int{}, delay: time.Duration(c.ErrUs) * time.Microsecond}
	if c.ErrUs > 0 {
		v.Label("slow-error-sink")
	}

	if c.Direct {
		var lwg sync.WaitGroup
		lwg.Add(1)
		go func() { defer lwg.Done(); lg.LogResults(ctx, engine.Results()) }()
		done, errc := engine.Start(ctx, &scan.Range{})
		lwg.Add(1)
		go func() {
			defer lwg.Done()
			for e := range errc {
				lg.Error(e)
			}
		}()
		select {
		case <-done:
		case <-time.After(120 * time.Second):
			return v.Failf("engine did not signal completion in 120s (%d of %d probes finished)", atomic.LoadInt64(&sc.completed), wantCalls)
		}
		inflight, completed := atomic.LoadInt64(&sc.inflight), atomic.LoadInt64(&sc.completed)
		if inflight != 0 || int(completed) != wantCalls {
			return v.Failf("completion signalled with %d probes in flight and %d of %d finished", inflight, completed, wantCalls)
		}
		// give the result/error streams time to drain, then cancel as the command does. This path judges the engine
		// (once per target, completion after all probes); the timing clause - printed within the default exit delay - is
		// judged on the startScanEngine path below. A fixed 300 ms here raised a false alarm on a saturated machine (the
		// logger goroutine of a race-instrumented binary had not been scheduled yet), so: at least the default delay, and
		// up to 10 s while records are still missing.
		time.Sleep(300 * time.Millisecond)
		wantLines := 0
		for _, n := range wantPos {
			wantLines += n
		}
		for deadline := time.Now().Add(10 * time.Second); time.Now().Before(deadline); {
			out.mu.Lock()
			have := bytes.Count(out.buf.Bytes(), []byte{'\n'})
			out.mu.Unlock()
			if have >= wantLines {
				break
			}
			time.Sleep(5 * time.Millisecond)
		}
		cancel()
		lwg.Wait()
	} else {
		jw = startJitterWatch()
		ret := make(chan error, 1)
		go func() {
			ret <- startScanEngine(ctx, engine, newEngineConfig(withLogger(lg), withScanRange(&scan.Range{}),
				withExitDelay(time.Duration(c.ExitMs)*time.Millisecond)))
		}()
		select {
		case e := <-ret:
			if e != nil {
				return v.Failf("startScanEngine: %v", e)
			}
		case <-time.After(120 * time.Second):
			return v.Failf("startScanEngine did not return in 120s")
		}
	}
	sc.mu.Lock()
	defer sc.mu.Unlock()
	if len(sc.unknown) > 0 {
		return v.Failf("probes of targets that are not in the list: %v", sc.unknown[:1])
	}
	for i := 0; i < c.N; i++ {
		want := 1
		if c.Outcome[i] == 'I' || c.Outcome[i] == 'P' {
			want = 0
		}
		if sc.calls[i] != want {
			return v.Failf("target %d (%c) was probed %d times, expected %d", i, c.Outcome[i], sc.calls[i], want)
		}
	}
	gotPos := map[string]int{}
	out.mu.Lock()
	text := out.buf.String()
	out.mu.Unlock()
	if text != "" && !strings.HasSuffix(text, "\n") {
		return v.Failf("output ends with an incomplete line")
	}
	for _, l := range strings.Split(strings.TrimSuffix(text, "\n"), "\n") {
		if l == "" {
			continue
		}
		var rec struct {
			IP   string `json:"ip"`
			Port int    `json:"port"`
		}
		if e := json.Unmarshal([]byte(l), &rec); e != nil {
			return v.Failf("output line %q: %v", l, e)
		}
		gotPos[fmt.Sprintf("%s:%d", rec.IP, rec.Port)]++
	}
	if d := diffMultiset(wantPos, gotPos); d != "" {
		if jw != nil && len(gotPos) <= len(wantPos) {
			if late := jw.Stop(); late > 40*time.Millisecond {
				// the machine stalled for longer than a tenth of the exit delay while the records were being written:
				// missing records prove nothing about sx
				return &kit.Verdict{Inconclusive: true}
			}
		}
		return v.Failf("output records differ from the positive probes: %s", d)
	}
	lg.mu.Lock()
	defer lg.mu.Unlock()
	if d := diffMultiset(wantErr, lg.errs); d != "" {
		return v.Failf("error records differ from the failed probes / bad entries: %s", d)
	}
	return v
}

func TestC08Engine(t *testing.T) {
	maxN := kit.EnvInt("C08_MAXN", 3000)
	kit.Run(t, kit.Spec[c08Case]{
		Prop: "C08",
		Rule: "target file of 0..5000 ip/port lines (more positives than the 2x1000-slot result buffers, more errors than the 100-slot error buffer) with a drawn outcome per target (positive / negative / probe error / bad-address line / bad-port line) and latency class (optionally a tail of slow positive probes so that the scan outlasts the exit delay), workers 1..1000, rate limiter on/off (for one or two targets also rates below one probe per second), optionally an error sink that takes 4 ms per record (the backlog of errors outlasts the exit delay), through genericScanCmdOpts.newScanEngine (real file generator, real engine, real ResultChan) and either engine.Start directly (done observed: nothing in flight, all finished) or startScanEngine with the real JSON logger and exit delay >= default. Oracle: each probe-able target scanned exactly once, output records = positives, error records = failures (multisets). non-trivial: >100 targets, >=2 workers, all three probe outcomes present; distinct by case",
		Gen: func(t *rapid.T) c08Case {
			c := c08Case{}
			c.N = rapid.SampledFrom([]int{0, 1, 2, 50, 101, 150, 400, 1200, maxN}).Draw(t, "n")
			if c.N > maxN {
				c.N = maxN
			}
			mix := rapid.SampledFrom([]string{"pne", "pppppppne", "eeeeeeepn", "pneIP", "n", "p", "e", "pnnnnnnnnnnnn"}).Draw(t, "mix")
			c.Outcome = make([]byte, c.N)
			c.Latency = make([]byte, c.N)
			slow := rapid.IntRange(0, 3).Draw(t, "slowness")
			for i := range c.Outcome {
				c.Outcome[i] = mix[kit.Uniform(t, "outcome", len(mix))]
				if slow > 0 {
					l := kit.Uniform(t, "lat", 12)
					if l > 3 || (l == 3 && c.N > 500) {
						l = 0
					}
					c.Latency[i] = byte(l)
				}
			}
			c.Workers = rapid.SampledFrom([]int{1, 2, 3, 10, 100, 100, 1000}).Draw(t, "workers")
			if c.N > 0 && rapid.IntRange(0, 3).Draw(t, "slow-tail") == 0 {
				// the last probes to finish are slow positives: the scan runs longer than the exit delay
				k := rapid.SampledFrom([]int{1, 2, 8, 64}).Draw(t, "tail")
				if k > c.Workers {
					k = c.Workers
				}
				if k > c.N {
					k = c.N
				}
				for i := c.N - k; i < c.N; i++ {
					c.Outcome[i], c.Latency[i] = 'p', 4
				}
				c.TailMs = 420
			}
			c.Rate = rapid.Bool().Draw(t, "rate")
			c.Direct = rapid.IntRange(0, 2).Draw(t, "direct") > 0
			c.ExitMs = rapid.SampledFrom([]int{300, 300, 500}).Draw(t, "exit")
			if strings.Contains(mix, "eeee") && c.N >= 400 && rapid.Bool().Draw(t, "slow-errors") {
				c.ErrUs = 4000 // some hundred queued errors x 4 ms: draining them takes longer than the exit delay
				if c.N > 1200 {
					c.N = 1200
					c.Outcome, c.Latency = c.Outcome[:c.N], c.Latency[:c.N]
				}
			}
			if c.TailMs > 0 {
				c.TailMs = c.ExitMs + 120
			}
			c.StallMs = rapid.SampledFrom([]int{0, 0, 40, 80}).Draw(t, "stall")
			if c.N >= 1 && c.N <= 2 && rapid.Bool().Draw(t, "slow-rate") {
				// legal rates below one probe per second (the scan of two targets takes a second or two)
				c.RateStr = rapid.SampledFrom([]string{"1/1001ms", "1/1500ms", "30/m", "2/3s"}).Draw(t, "rate-str")
				c.Rate = false
			}
			return c
		},
		Check: c08Check,
	})
}

// ---------------------------------------------------------------- error records of full commands (stderr lines)

type c08ErrCase struct {
	Cmd     string `json:"command"`
	N       int    `json:"bad_entries"`
	Mix     string `json:"causes"` // per entry, cyclic: 'I' bad address, 'P' bad port
	Workers int    `json:"workers"`
}

func c08ErrCheck(c c08ErrCase) *kit.Verdict {
	v := &kit.Verdict{Units: c.N}
	v.Label("cmd=%s", c.Cmd)
	v.Label("n=%s", bucket(c.N, 0, 1, 100, 101, 201, 1000))
	var sb strings.Builder
	want := map[string]int{}
	for i := 0; i < c.N; i++ {
		if c.Mix[i%len(c.Mix)] == 'I' {
			fmt.Fprintf(&sb, `{"ip":"10.0.0.%d.9","port":80}`+"\n", i%200)
			want["invalid ip"]++
		} else {
			fmt.Fprintf(&sb, `{"ip":"10.0.%d.%d","port":0}`+"\n", i/250, i%250)
			want["invalid port"]++
		}
	}
	files := &cmdFiles{}
	defer files.cleanup()
	args := []string{c.Cmd, "--json", "-w", fmt.Sprint(c.Workers), "-f", files.write("bad", sb.String())}
	res := runCmd(cmdRun{Args: args, Timeout: 60 * time.Second})
	line := "sx " + strings.Join(args, " ")
	if res.Hung || res.Err != nil {
		return v.Failf("%s: hung=%v err=%v", line, res.Hung, res.Err)
	}
	got := map[string]int{}
	for _, l := range errorLines(res.Stderr) {
		var rec map[string]interface{}
		if json.Unmarshal([]byte(l), &rec) != nil {
			return v.Failf("%s: error line is not JSON: %q", line, l)
		}
		msg, _ := rec["error"].(string)
		got[msg]++
	}
	if d := diffMultiset(want, got); d != "" {
		return v.Failf("%s\n%d entries that cannot become probes, error records on stderr differ: %s", line, c.N, d)
	}
	if strings.TrimSpace(res.Stdout) != "" {
		return v.Failf("%s: output records although nothing could be probed: %s", line, clipN(res.Stdout, 200))
	}
	v.NonTrivial = c.N > 100
	return v
}

func TestC08ErrorRecords(t *testing.T) {
	kit.Run(t, kit.Spec[c08ErrCase]{
		Prop: "C08",
		Rule: "full socks / docker / elastic commands (in-process, default exit delay) on a target file of 0..3000 entries that all fail before any connection is made (bad address / port 0), workers 1..1000. Oracle: the error records written to stderr (one JSON line each) equal the failures as a multiset - more than the 100-slot error buffers and more than any per-second logging quota. non-trivial: > 100 failures; distinct by case",
		Gen: func(t *rapid.T) c08ErrCase {
			return c08ErrCase{Cmd: rapid.SampledFrom([]string{"socks", "docker", "elastic"}).Draw(t, "cmd"),
				N:       rapid.SampledFrom([]int{0, 1, 99, 100, 101, 150, 201, 350, 1000, 3000}).Draw(t, "n"),
				Mix:     rapid.SampledFrom([]string{"I", "P", "IP", "IIP"}).Draw(t, "mix"),
				Workers: rapid.SampledFrom([]int{1, 2, 100, 1000}).Draw(t, "workers")}
		},
		Check: c08ErrCheck,
	})
}

var _ = filepath.Join
