//go:build verif

package command

import (
	"fmt"
	"math/rand"
	"net"
	"strings"
	"sync"
	"testing"
	"time"

	kit "verifkit"
	"verifkit/gram"
	"verifkit/wire"

	"github.com/v-byte-cpu/sx/pkg/packet"
	"pgregory.net/rapid"
)

// ---------------------------------------------------------------- C05: one filler shared by many packet-building workers

type c05ConcCase struct {
	Base    c05Case `json:"base"`
	Workers int     `json:"workers"`
	PerW    int     `json:"fills_per_worker"`
}

func c05ConcCheck(c c05ConcCase) *kit.Verdict {
	v := &kit.Verdict{Units: c.Workers * c.PerW}
	v.Label("kind=%s", c.Base.Kind)
	v.Label("workers=%d", c.Workers)
	rand.Seed(c.Base.Seed)
	f, err := c05Filler(c.Base)
	if err != nil {
		return v.Failf("%v", err)
	}
	var wg sync.WaitGroup
	errs := make(chan error, c.Workers)
	for w := 0; w < c.Workers; w++ {
		wg.Add(1)
		go func(w int) {
			defer wg.Done()
			for i := 0; i < c.PerW; i++ {
				cc := c.Base
				n := w*c.PerW + i
				cc.DstIP = [4]byte{c.Base.DstIP[0], byte(w), byte(i >> 8), byte(i)}
				cc.DstMAC = [6]byte{2, byte(w), byte(i >> 8), byte(i), 0x55, byte(n)}
				cc.DstPort = uint16(1 + n%65535)
				buf := packet.NewSerializeBuffer()
				if err := f.Fill(buf, c05Request(cc)); err != nil {
					errs <- fmt.Errorf("worker %d fill %d: %v", w, i, err)
					return
				}
				data := append([]byte(nil), buf.Bytes()...)
				packet.FreeSerializeBuffer(buf)
				if err := c05CheckFrame(cc, data); err != nil {
					errs <- fmt.Errorf("worker %d, fill %d of %d concurrent workers sharing one filler: %v; frame %x", w, i, c.Workers, err, data)
					return
				}
			}
		}(w)
	}
	wg.Wait()
	close(errs)
	for e := range errs {
		return v.Failf("%v", e)
	}
	v.NonTrivial = c.Workers >= 2
	return v
}

func TestC05Concurrent(t *testing.T) {
	kit.Run(t, kit.Spec[c05ConcCase]{
		Prop: "C05",
		Rule: "one filler (tcp/udp/icmp/arp with drawn options, either link mode), as the commands share it among their packet-building workers: 1..32 goroutines fill 50..2000 requests each with distinct destination address, MAC and port; every frame is judged against ITS OWN request by the independent decoder (race detector on). non-trivial: >=2 workers; distinct by case",
		Gen: func(t *rapid.T) c05ConcCase {
			c := c05ConcCase{Base: c05Gen(t), Workers: rapid.SampledFrom([]int{1, 2, 4, 16, 32}).Draw(t, "workers"), PerW: rapid.SampledFrom([]int{50, 400, 2000}).Draw(t, "perw")}
			c.Base.VPN = c.Base.Kind != "arp" && rapid.Bool().Draw(t, "vpn")
			c.Base.Dst16 = false
			if len(c.Base.Payload) > 64 {
				c.Base.Payload = c.Base.Payload[:64]
			}
			return c
		},
		Check: c05ConcCheck,
	})
}

// ---------------------------------------------------------------- C05: the same oracle on frames written by full commands

type c05CmdCase struct {
	C        c05Case `json:"requested"`
	UpperMix int     `json:"letter_case_seed"`
	PayMode  int     `json:"payload_rendering"`
	DupFlags bool    `json:"flag_names_repeated"`
}

func mixCase(s string, seed int) string {
	b := []byte(s)
	for i := range b {
		if (seed>>uint(i%16))&1 == 1 && b[i] >= 'a' && b[i] <= 'z' {
			b[i] -= 32
		}
	}
	return string(b)
}

func c05CmdArgs(cc c05CmdCase) []string {
	c := cc.C
	var args []string
	switch c.Kind {
	case "tcp":
		switch {
		case c.TCPFlags == wire.SYN && cc.UpperMix%2 == 0:
			args = []string{"tcp", "syn"}
		case c.TCPFlags == wire.SYN:
			args = []string{"tcp"}
		case c.TCPFlags == wire.FIN && cc.UpperMix%2 == 0:
			args = []string{"tcp", "fin"}
		case c.TCPFlags == 0:
			args = []string{"tcp", "null"}
		case c.TCPFlags == wire.FIN|wire.PSH|wire.URG && cc.UpperMix%2 == 0:
			args = []string{"tcp", "xmas"}
		default:
			var names []string
			for _, i := range c.FlagPerm {
				if i >= 0 && i < len(c05FlagNames) && c.TCPFlags&c05FlagNames[i].bit != 0 {
					names = append(names, c05FlagNames[i].name)
				}
			}
			if cc.DupFlags && len(names) > 0 {
				names = append(names, names[cc.UpperMix%len(names)])
			}
			args = []string{"tcp", "--flags", mixCase(strings.Join(names, ","), cc.UpperMix)}
		}
	default:
		args = []string{c.Kind}
	}
	args = append(args, "-i", "lo", "--json", "--exit-delay", "5ms", "--srcip", net.IP(c.SrcIP[:]).String())
	if c.Kind == "arp" {
		args = append(args, "--srcmac", net.HardwareAddr(c.SrcMAC[:]).String())
	} else if !c.VPN {
		args = append(args, "--srcmac", net.HardwareAddr(c.SrcMAC[:]).String(), "--gwmac", net.HardwareAddr(c.DstMAC[:]).String(), "-a", "/dev/null")
	}
	if c.Kind == "tcp" || c.Kind == "udp" {
		args = append(args, "-p", fmt.Sprint(c.DstPort))
	}
	if c.Kind == "udp" || c.Kind == "icmp" {
		args = append(args, "--ttl", fmt.Sprint(c.TTL))
		var fl []string
		for _, n := range []struct {
			bit  uint8
			name string
		}{{2, "df"}, {1, "mf"}, {4, "evil"}} {
			if c.IPFlags&n.bit != 0 {
				fl = append(fl, n.name)
			}
		}
		if cc.DupFlags && len(fl) > 0 {
			// naming a flag twice still requests just that flag
			fl = append(fl, fl[cc.UpperMix%len(fl)])
			if cc.UpperMix%3 == 0 {
				fl = append([]string{fl[len(fl)-1]}, fl...)
			}
		}
		args = append(args, "--ipflags="+mixCase(strings.Join(fl, ","), cc.UpperMix))
		if c.Proto != 0 {
			args = append(args, "--ipproto", fmt.Sprint(c.Proto))
		}
		if c.IPLen != 0 {
			args = append(args, "--iplen", fmt.Sprint(c.IPLen))
		}
		if len(c.Payload) > 0 {
			args = append(args, "--payload", gram.RenderPayload(c.Payload, cc.PayMode))
		}
		if c.Kind == "icmp" {
			args = append(args, "--type", fmt.Sprint(c.Type), "--code", fmt.Sprint(c.Code))
		}
	}
	return append(args, net.IP(c.DstIP[:]).String())
}

func c05CmdCheck(cc c05CmdCase) *kit.Verdict {
	v := &kit.Verdict{Units: 1}
	c := cc.C
	v.Label("kind=%s", c.Kind)
	if c.VPN {
		v.Label("vpn")
	}
	args := c05CmdArgs(cc)
	res := runCmd(cmdRun{Args: args, Seed: c.Seed, Timeout: 60 * time.Second})
	line := "sx " + strings.Join(args, " ")
	if res.Hung || res.Err != nil {
		return v.Failf("%s: hung=%v err=%v\nstderr: %s", line, res.Hung, res.Err, clipN(res.Stderr, 300))
	}
	if len(res.Writes) != 1 {
		return v.Failf("%s: %d frames written, expected 1\nstderr: %s", line, len(res.Writes), clipN(res.Stderr, 300))
	}
	// through the command, options go through the command's wiring
	c.Direct = false
	if err := c05CheckFrame(c, res.Writes[0].Frame); err != nil {
		return v.Failf("%s\n%v\nframe %x", line, err, res.Writes[0].Frame)
	}
	v.NonTrivial = c.Kind == "arp" || c.TCPFlags != wire.SYN && c.Kind == "tcp" || c.Kind != "tcp" && (len(c.Payload) > 0 || c.TTL != 64 || c.IPFlags != 2 || c.IPLen != 0 || c.Proto != 0 || c.Type != 8)
	return v
}

func TestC05Commands(t *testing.T) {
	kit.Run(t, kit.Spec[c05CmdCase]{
		Prop: "C05",
		Rule: "the same requested fields as TestC05Fillers, given on the command line of full commands on the virtual wire: tcp syn/fin/null/xmas or --flags <names in drawn order and letter case, sometimes a name twice>, udp/icmp with --ttl --ipflags --ipproto --iplen --payload (\\xHH, literal ASCII or octal rendering, incl. bytes >= 0x80) --type --code, arp; --srcip/--srcmac/--gwmac as requested, both link modes. Oracle: the one frame on the wire decodes (independent decoder, checksums recomputed) to exactly the requested fields. non-trivial: non-default option set; distinct by case",
		Gen: func(t *rapid.T) c05CmdCase {
			cc := c05CmdCase{C: c05Gen(t), UpperMix: rapid.IntRange(0, 65535).Draw(t, "lettercase"), PayMode: rapid.IntRange(0, 2).Draw(t, "paymode"), DupFlags: rapid.IntRange(0, 3).Draw(t, "dupflags") == 0}
			cc.C.Dst16 = false
			cc.C.VPN = cc.C.Kind != "arp" && rapid.Bool().Draw(t, "vpn")
			if cc.C.DstPort == 0 {
				cc.C.DstPort = 1
			}
			if len(cc.C.Payload) > 300 {
				cc.C.Payload = cc.C.Payload[:300]
			}
			// the all-zero source and broadcast destinations are fine for fillers but are refused / special on a command line
			if cc.C.SrcIP == [4]byte{} {
				cc.C.SrcIP = [4]byte{10, 250, 0, 1}
			}
			return cc
		},
		Check: c05CmdCheck,
	})
}
