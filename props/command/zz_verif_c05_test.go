//go:build verif

package command

import (
	"bytes"
	"fmt"
	"math/rand"
	"net"
	"testing"

	kit "verifkit"
	"verifkit/wire"

	"github.com/v-byte-cpu/sx/pkg/packet"
	"github.com/v-byte-cpu/sx/pkg/scan"
	"github.com/v-byte-cpu/sx/pkg/scan/arp"
	"github.com/v-byte-cpu/sx/pkg/scan/icmp"
	"github.com/v-byte-cpu/sx/pkg/scan/tcp"
	"github.com/v-byte-cpu/sx/pkg/scan/udp"
	"pgregory.net/rapid"
)

// C05: every probe frame decodes (independent decoder) to exactly the requested fields.

type c05Case struct {
	Kind     string  `json:"kind"` // tcp | udp | icmp | arp
	VPN      bool    `json:"vpn"`
	SrcIP    [4]byte `json:"src_ip"`
	DstIP    [4]byte `json:"dst_ip"`
	Dst16    bool    `json:"dst_ip_16byte_form"`
	SrcMAC   [6]byte `json:"src_mac"`
	DstMAC   [6]byte `json:"dst_mac"`
	DstPort  uint16  `json:"dst_port"`
	TCPFlags uint16  `json:"tcp_flags"`
	FlagPerm []int   `json:"flag_order"`
	TTL      uint8   `json:"ttl"`
	IPFlags  uint8   `json:"ip_flags"`
	Proto    uint8   `json:"ip_proto"` // 0 => default of the scan
	IPLen    uint16  `json:"ip_len"`   // 0 => computed
	Type     uint8   `json:"icmp_type"`
	Code     uint8   `json:"icmp_code"`
	Payload  []byte  `json:"payload"`
	Direct   bool    `json:"direct_filler_options"` // exported WithXXX options instead of the command's option wiring
	Seed     int64   `json:"rand_seed"`
}

var c05FlagNames = []struct {
	bit  uint16
	name string
}{{wire.SYN, "syn"}, {wire.ACK, "ack"}, {wire.FIN, "fin"}, {wire.RST, "rst"}, {wire.PSH, "psh"},
	{wire.URG, "urg"}, {wire.ECE, "ece"}, {wire.CWR, "cwr"}, {wire.NS, "ns"}}

func c05Filler(c c05Case) (scan.PacketFiller, error) {
	switch c.Kind {
	case "tcp":
		// names in the drawn order, through the command's own name->option table
		var names []string
		for _, i := range c.FlagPerm {
			if i >= 0 && i < len(c05FlagNames) && c.TCPFlags&c05FlagNames[i].bit != 0 {
				names = append(names, c05FlagNames[i].name)
			}
		}
		var opts []tcp.PacketFillerOption
		for _, n := range names {
			o, ok := tcpPacketFlagOptions[n]
			if !ok {
				return nil, fmt.Errorf("flag name %q missing from the option table", n)
			}
			opts = append(opts, o)
		}
		opts = append(opts, tcp.WithFillerVPNmode(c.VPN))
		return tcp.NewPacketFiller(opts...), nil
	case "udp":
		proto := c.Proto
		if proto == 0 {
			proto = 17
		}
		if c.Direct {
			return udp.NewPacketFiller(udp.WithTTL(c.TTL), udp.WithIPProtocol(proto), udp.WithIPFlags(c.IPFlags),
				udp.WithIPTotalLength(c.IPLen), udp.WithVPNmode(c.VPN), udp.WithPayload(c.Payload)), nil
		}
		o := &udpCmdOpts{ipTTL: c.TTL, ipFlags: c.IPFlags, ipProtocol: proto, ipTotalLen: c.IPLen, udpPayload: c.Payload}
		o.vpnMode = c.VPN
		return udp.NewPacketFiller(o.getUDPOptions()...), nil
	case "icmp":
		proto := c.Proto
		if proto == 0 {
			proto = 1
		}
		if c.Direct {
			return icmp.NewPacketFiller(icmp.WithTTL(c.TTL), icmp.WithIPProtocol(proto), icmp.WithIPFlags(c.IPFlags),
				icmp.WithIPTotalLength(c.IPLen), icmp.WithType(c.Type), icmp.WithCode(c.Code), icmp.WithVPNmode(c.VPN),
				icmp.WithPayload(c.Payload)), nil
		}
		o := &icmpCmdOpts{ipTTL: c.TTL, ipFlags: c.IPFlags, ipProtocol: proto, ipTotalLen: c.IPLen,
			icmpType: c.Type, icmpCode: c.Code, icmpPayload: c.Payload}
		o.vpnMode = c.VPN
		return icmp.NewPacketFiller(o.getICMPOptions()...), nil
	case "arp":
		return arp.NewPacketFiller(), nil
	}
	return nil, fmt.Errorf("kind %q", c.Kind)
}

func c05Request(c c05Case) *scan.Request {
	dst := net.IP(append([]byte(nil), c.DstIP[:]...))
	if c.Dst16 {
		dst = dst.To16()
	}
	return &scan.Request{SrcIP: net.IP(append([]byte(nil), c.SrcIP[:]...)), DstIP: dst,
		SrcMAC: append([]byte(nil), c.SrcMAC[:]...), DstMAC: append([]byte(nil), c.DstMAC[:]...), DstPort: c.DstPort}
}

func c05Fill(c c05Case, vpn bool) ([]byte, error) {
	cc := c
	cc.VPN = vpn
	rand.Seed(c.Seed) // before the filler is built: the default ICMP payload is drawn at construction
	f, err := c05Filler(cc)
	if err != nil {
		return nil, err
	}
	buf := packet.NewSerializeBuffer()
	defer packet.FreeSerializeBuffer(buf)
	if err := f.Fill(buf, c05Request(cc)); err != nil {
		return nil, fmt.Errorf("Fill: %v", err)
	}
	return append([]byte(nil), buf.Bytes()...), nil
}

// c05CheckFrame is the oracle: frame bytes vs the requested fields, used by C05 and by the command-level checks.
func c05CheckFrame(c c05Case, data []byte) error {
	f := wire.Decode(data, !c.VPN)
	if c.Kind == "arp" {
		if f.ARP == nil {
			return fmt.Errorf("not an ARP frame (%s)", f.Stop)
		}
		a := f.ARP
		bcast := [6]byte{0xff, 0xff, 0xff, 0xff, 0xff, 0xff}
		switch {
		case f.Eth.Dst != bcast:
			return fmt.Errorf("ethernet destination %x, want broadcast", f.Eth.Dst)
		case f.Eth.Src != c.SrcMAC:
			return fmt.Errorf("ethernet source %x, want %x", f.Eth.Src, c.SrcMAC)
		case a.HType != 1 || a.PType != 0x0800 || a.HLen != 6 || a.PLen != 4:
			return fmt.Errorf("ARP header htype=%d ptype=%#x hlen=%d plen=%d", a.HType, a.PType, a.HLen, a.PLen)
		case a.Op != 1:
			return fmt.Errorf("ARP opcode %d, want request", a.Op)
		case !bytes.Equal(a.SHA, c.SrcMAC[:]) || !bytes.Equal(a.SPA, c.SrcIP[:]):
			return fmt.Errorf("ARP sender %x/%v, want %x/%v", a.SHA, a.SPA, c.SrcMAC, c.SrcIP)
		case !bytes.Equal(a.TPA, c.DstIP[:]):
			return fmt.Errorf("ARP target address %v, want %v", a.TPA, c.DstIP)
		case !bytes.Equal(a.THA, make([]byte, 6)):
			return fmt.Errorf("ARP target hardware address %x, want zeros", a.THA)
		}
		if err := c05Padding(data, 14+28); err != nil {
			return err
		}
		return nil
	}
	if !c.VPN {
		if f.Eth.Type != wire.EtherIPv4 {
			return fmt.Errorf("ethertype %#x", f.Eth.Type)
		}
		if f.Eth.Dst != c.DstMAC || f.Eth.Src != c.SrcMAC {
			return fmt.Errorf("ethernet %x->%x, want %x->%x", f.Eth.Src, f.Eth.Dst, c.SrcMAC, c.DstMAC)
		}
	}
	if len(f.IPs) < 1 { // (with --ipproto 4 the independent decoder follows the "inner" header too; only the outer one matters)
		return fmt.Errorf("no IPv4 header: decode stopped at %q", f.Stop)
	}
	ip := f.IPs[0]
	ipBytes := len(data) - f.IPOff[0]
	if ip.Version != 4 || ip.IHL != 5 {
		return fmt.Errorf("ip version/ihl %d/%d", ip.Version, ip.IHL)
	}
	if ip.Src != c.SrcIP || ip.Dst != c.DstIP {
		return fmt.Errorf("ip %v->%v, want %v->%v", ip.Src, ip.Dst, c.SrcIP, c.DstIP)
	}
	if ip.ID == 0 {
		return fmt.Errorf("ip id is 0")
	}
	if ip.FragOff != 0 {
		return fmt.Errorf("fragment offset %d", ip.FragOff)
	}
	if !wire.VerifyIPChecksum(data, f, 0) {
		return fmt.Errorf("wrong IPv4 header checksum %#04x", ip.Checksum)
	}
	overridden := false
	switch c.Kind {
	case "tcp":
		if ip.Proto != wire.ProtoTCP || ip.Flags != 2 {
			return fmt.Errorf("tcp probe: ip proto %d flags %d", ip.Proto, ip.Flags)
		}
	default:
		wantProto := c.Proto
		if wantProto == 0 {
			wantProto = map[string]uint8{"udp": 17, "icmp": 1}[c.Kind]
		}
		if ip.Proto != wantProto {
			return fmt.Errorf("ip protocol %d, want %d", ip.Proto, wantProto)
		}
		if ip.Flags != c.IPFlags&7 {
			return fmt.Errorf("ip flags %03b, want %03b", ip.Flags, c.IPFlags&7)
		}
		if ip.TTL != c.TTL {
			return fmt.Errorf("ttl %d, want %d", ip.TTL, c.TTL)
		}
		if c.IPLen != 0 {
			overridden = true
			if ip.TotalLen != c.IPLen {
				return fmt.Errorf("ip total length %d, want the override %d verbatim", ip.TotalLen, c.IPLen)
			}
		}
		if wantProto != map[string]uint8{"udp": 17, "icmp": 1}[c.Kind] {
			overridden = true
		}
	}
	// natural datagram length; Ethernet frames may carry zero padding up to the 60-byte minimum
	nat := 20 + map[string]int{"tcp": 0, "udp": 8 + len(c.Payload), "icmp": 8 + len(c.Payload)}[c.Kind]
	if c.Kind == "icmp" && len(c.Payload) == 0 && !c.Direct {
		nat += 48
	}
	if c.Kind == "tcp" {
		nat = int(ip.TotalLen)
	}
	if !overridden && int(ip.TotalLen) != nat {
		return fmt.Errorf("ip total length %d, want %d", ip.TotalLen, nat)
	}
	if ipBytes < nat {
		return fmt.Errorf("datagram has %d bytes, %d expected", ipBytes, nat)
	}
	if c.VPN && ipBytes != nat {
		return fmt.Errorf("raw-IP datagram has %d bytes, %d expected", ipBytes, nat)
	}
	if err := c05Padding(data, f.IPOff[0]+nat); err != nil {
		return err
	}
	// transport header: located by position (the protocol field may be overridden)
	l4 := data[f.IPOff[0]+20 : f.IPOff[0]+nat]
	switch c.Kind {
	case "tcp":
		if f.TCP == nil {
			return fmt.Errorf("no tcp header (%s)", f.Stop)
		}
		t := f.TCP
		if t.DstPort != c.DstPort {
			return fmt.Errorf("tcp dst port %d, want %d", t.DstPort, c.DstPort)
		}
		if t.SrcPort < 32768 || t.SrcPort > 60999 {
			return fmt.Errorf("tcp src port %d outside 32768..60999", t.SrcPort)
		}
		if t.Flags != c.TCPFlags {
			return fmt.Errorf("tcp flags %q, want %q", wire.FlagLetters(t.Flags), wire.FlagLetters(c.TCPFlags))
		}
		if int(t.DataOff)*4 != len(l4) || t.DataOff < 5 {
			return fmt.Errorf("tcp data offset %d but %d bytes of tcp header and no payload expected", t.DataOff, len(l4))
		}
		if wire.TransportChecksum(ip.Src, ip.Dst, 6, l4) != 0 {
			return fmt.Errorf("wrong tcp checksum")
		}
		// options must parse to the end of the header
		for o := t.Options; len(o) > 0; {
			switch {
			case o[0] == 0:
				o = nil
			case o[0] == 1:
				o = o[1:]
			case len(o) < 2 || o[1] < 2 || int(o[1]) > len(o):
				return fmt.Errorf("malformed tcp option at %x", o)
			default:
				o = o[o[1]:]
			}
		}
	case "udp":
		if len(l4) < 8 {
			return fmt.Errorf("udp header missing")
		}
		dport := uint16(l4[2])<<8 | uint16(l4[3])
		sport := uint16(l4[0])<<8 | uint16(l4[1])
		if dport != c.DstPort {
			return fmt.Errorf("udp dst port %d, want %d", dport, c.DstPort)
		}
		if sport < 32768 || sport > 60999 {
			return fmt.Errorf("udp src port %d outside 32768..60999", sport)
		}
		if !bytes.Equal(l4[8:], c.Payload) {
			return fmt.Errorf("udp payload %x, want %x", l4[8:], c.Payload)
		}
		if !overridden {
			if f.UDP == nil {
				return fmt.Errorf("no udp header (%s)", f.Stop)
			}
			if int(f.UDP.Length) != len(l4) {
				return fmt.Errorf("udp length %d, datagram has %d", f.UDP.Length, len(l4))
			}
			// the checksum must verify arithmetically over pseudo-header and datagram. (A field of 0x0000 only verifies in
			// the 1-in-65536 case where the computed checksum is zero; RFC 768 prefers 0xffff there, the property does
			// not ask for that encoding. A checksum that was simply not computed does not verify and is reported.)
			if wire.TransportChecksum(ip.Src, ip.Dst, 17, l4) != 0 {
				return fmt.Errorf("wrong udp checksum %#04x", f.UDP.Checksum)
			}
		}
	case "icmp":
		if len(l4) < 8 {
			return fmt.Errorf("icmp header missing")
		}
		if l4[0] != c.Type || l4[1] != c.Code {
			return fmt.Errorf("icmp type/code %d/%d, want %d/%d", l4[0], l4[1], c.Type, c.Code)
		}
		wantPayload := c.Payload
		if len(c.Payload) == 0 && !c.Direct {
			// command level: no payload option => 48 random bytes
			if len(l4[8:]) != 48 {
				return fmt.Errorf("default icmp payload has %d bytes, want 48", len(l4[8:]))
			}
		} else if !bytes.Equal(l4[8:], wantPayload) {
			return fmt.Errorf("icmp payload %x, want %x", l4[8:], wantPayload)
		}
		if wire.Checksum(l4, 0) != 0 {
			return fmt.Errorf("wrong icmp checksum")
		}
	}
	return nil
}

// c05Padding: bytes after the natural end must be Ethernet minimum-size padding (zeros, frame <= 60 bytes).
func c05Padding(data []byte, natural int) error {
	if len(data) == natural {
		return nil
	}
	if len(data) < natural {
		return fmt.Errorf("frame has %d bytes, %d expected", len(data), natural)
	}
	if len(data) > 60 {
		return fmt.Errorf("frame has %d bytes, %d expected (more than minimum-size padding)", len(data), natural)
	}
	for _, b := range data[natural:] {
		if b != 0 {
			return fmt.Errorf("non-zero bytes after the end of the datagram: %x", data[natural:])
		}
	}
	return nil
}

func c05Check(c c05Case) *kit.Verdict {
	v := &kit.Verdict{}
	v.Label("kind=%s", c.Kind)
	if c.VPN {
		v.Label("vpn")
	}
	if len(c.Payload)%2 == 1 {
		v.Label("odd-payload")
	}
	if c.IPLen != 0 || c.Proto != 0 {
		v.Label("override")
	}
	v.NonTrivial = c.Kind == "arp" || c.TCPFlags != wire.SYN && c.Kind == "tcp" || c.Kind != "tcp" && (len(c.Payload) > 0 || c.TTL != 64 || c.IPFlags != 2 || c.IPLen != 0 || c.Proto != 0 || c.Type != 8)
	if c.Kind == "arp" {
		data, err := c05Fill(c, false)
		if err != nil {
			return v.Failf("%v", err)
		}
		cc := c
		cc.VPN = false
		if err := c05CheckFrame(cc, data); err != nil {
			return v.Failf("%v; frame %x", err, data)
		}
		return v
	}
	eth, err := c05Fill(c, false)
	if err != nil {
		return v.Failf("ethernet mode: %v", err)
	}
	raw, err := c05Fill(c, true)
	if err != nil {
		return v.Failf("vpn mode: %v", err)
	}
	ce, cv := c, c
	ce.VPN, cv.VPN = false, true
	if err := c05CheckFrame(ce, eth); err != nil {
		return v.Failf("ethernet mode: %v; frame %x", err, eth)
	}
	if err := c05CheckFrame(cv, raw); err != nil {
		return v.Failf("vpn mode: %v; frame %x", err, raw)
	}
	if len(eth) < 14+len(raw) || !bytes.Equal(eth[14:14+len(raw)], raw) {
		return v.Failf("vpn frame is not the ethernet frame minus its 14-byte header:\n eth %x\n vpn %x", eth, raw)
	}
	return v
}

func c05GenCommon(t *rapid.T, c *c05Case) {
	ip4 := func(label string) (a [4]byte) {
		copy(a[:], rapid.SliceOfN(rapid.Byte(), 4, 4).Draw(t, label))
		return
	}
	mac := func(label string) (m [6]byte) {
		copy(m[:], rapid.SliceOfN(rapid.Byte(), 6, 6).Draw(t, label))
		return
	}
	c.SrcIP, c.DstIP = ip4("src"), ip4("dst")
	c.SrcMAC, c.DstMAC = mac("smac"), mac("dmac")
	c.Dst16 = rapid.Bool().Draw(t, "dst16")
	c.DstPort = uint16(kit.UniformInt64(t, "port", 0, 65535))
	c.Seed = rapid.Int64().Draw(t, "seed")
}

func c05Gen(t *rapid.T) c05Case {
	var c c05Case
	c.Kind = rapid.SampledFrom([]string{"tcp", "udp", "icmp", "arp"}).Draw(t, "kind")
	c05GenCommon(t, &c)
	switch c.Kind {
	case "tcp":
		c.TCPFlags = uint16(kit.Uniform(t, "flags", 512))
		c.FlagPerm = rapid.Permutation([]int{0, 1, 2, 3, 4, 5, 6, 7, 8}).Draw(t, "order")
	case "arp":
		c.Dst16 = rapid.Bool().Draw(t, "dst16arp")
	default:
		c.TTL = rapid.Byte().Draw(t, "ttl")
		c.IPFlags = uint8(rapid.IntRange(0, 7).Draw(t, "ipflags"))
		c.Direct = rapid.Bool().Draw(t, "direct")
		if rapid.IntRange(0, 3).Draw(t, "ovproto") == 0 {
			c.Proto = rapid.Byte().Draw(t, "proto")
		}
		if rapid.IntRange(0, 3).Draw(t, "ovlen") == 0 {
			c.IPLen = rapid.Uint16().Draw(t, "iplen")
		}
		n := rapid.SampledFrom([]int{0, 0, 1, 2, 3, 7, 8, 47, 48, 49, 255, 256, 1000, 1459, 1460, -1}).Draw(t, "plen")
		if n < 0 {
			n = rapid.IntRange(0, 1460).Draw(t, "plen2")
		}
		c.Payload = rapid.SliceOfN(rapid.Byte(), n, n).Draw(t, "payload")
		if c.Kind == "icmp" {
			c.Type, c.Code = rapid.Byte().Draw(t, "type"), rapid.Byte().Draw(t, "code")
		}
	}
	return c
}

func TestC05Fillers(t *testing.T) {
	kit.Run(t, kit.Spec[c05Case]{
		Prop:  "C05",
		Rule:  "filler kind x request (any IPv4 src/dst, 4- and 16-byte dst form, MACs, any dst port) x options (all 512 TCP flag sets exhaustively + drawn with drawn name order through the command's name->option table; TTL, IP flags 0..7, ICMP type/code, payload lengths 0..1460 incl. odd, proto/length overrides; through the command's option wiring or the exported options) x rand seed; both link modes per case. Oracle: verifkit/wire decoder + recomputed checksums. non-trivial: non-default option set; distinct by case",
		Gen:   c05Gen,
		Check: c05Check,
		Exhaustive: func(yield func(c05Case) bool) {
			for fl := 0; fl < 512; fl++ {
				yield(c05Case{Kind: "tcp", SrcIP: [4]byte{10, 0, 0, 1}, DstIP: [4]byte{10, 0, byte(fl >> 8), byte(fl)},
					SrcMAC: [6]byte{2, 0, 0, 0, 0, 1}, DstMAC: [6]byte{2, 0, 0, 0, 0, 2}, DstPort: uint16(fl + 1),
					TCPFlags: uint16(fl), FlagPerm: []int{8, 7, 6, 5, 4, 3, 2, 1, 0}, Seed: int64(fl)})
			}
		},
	})
}

// Spoofed fields stay in their advertised ranges: many fills per filler, extreme values tracked.
type c05SpoofCase struct {
	Kind    string `json:"kind"`
	Seed    int64  `json:"rand_seed"`
	Fills   int    `json:"fills"`
	DstPort uint16 `json:"dst_port"`
	VPN     bool   `json:"vpn"`
}

func TestC05Spoofed(t *testing.T) {
	fills := kit.EnvInt("C05_FILLS", 150000)
	kit.Run(t, kit.Spec[c05SpoofCase]{
		Prop: "C05",
		Rule: "per case one filler (tcp/udp/icmp, either link mode) fills 150000 frames under one rand seed for one destination port drawn from the edges of the spoofed range and of the port space (0, 1, 32767..32769, 60998..61000, 65535) or any port; every frame: IP id != 0, source port in 32768..60999 (tcp/udp); non-trivial: always; distinct by case",
		Gen: func(t *rapid.T) c05SpoofCase {
			c := c05SpoofCase{Kind: rapid.SampledFrom([]string{"tcp", "udp", "icmp"}).Draw(t, "kind"),
				Seed: rapid.Int64().Draw(t, "seed"), Fills: fills}
			// destination ports at the edges of the spoofed source-port range (and of the port space) as well as any port:
			// whatever relation the filler sees between the two ports must not push the source port out of its range
			c.DstPort = uint16(rapid.SampledFrom([]int{80, 0, 1, 32767, 32768, 32769, 60998, 60999, 60999, 61000, 65535}).Draw(t, "dstport"))
			if c.DstPort == 65535 && rapid.Bool().Draw(t, "any-port") {
				c.DstPort = uint16(kit.UniformInt64(t, "port", 0, 65535))
			}
			c.VPN = rapid.Bool().Draw(t, "vpn")
			return c
		},
		Check: func(c c05SpoofCase) *kit.Verdict {
			v := &kit.Verdict{NonTrivial: true, Units: c.Fills}
			v.Label("kind=%s", c.Kind)
			cc := c05Case{Kind: c.Kind, VPN: c.VPN, SrcIP: [4]byte{10, 1, 2, 3}, DstIP: [4]byte{10, 3, 2, 1}, DstPort: c.DstPort,
				TCPFlags: wire.SYN, FlagPerm: []int{0, 1, 2, 3, 4, 5, 6, 7, 8}, TTL: 64, IPFlags: 2, Type: 8, Direct: true}
			rand.Seed(c.Seed)
			f, err := c05Filler(cc)
			if err != nil {
				return v.Failf("%v", err)
			}
			req := c05Request(cc)
			buf := packet.NewSerializeBuffer()
			defer packet.FreeSerializeBuffer(buf)
			for i := 0; i < c.Fills; i++ {
				if err := buf.Clear(); err != nil {
					return v.Failf("%v", err)
				}
				if err := f.Fill(buf, req); err != nil {
					return v.Failf("Fill: %v", err)
				}
				d := buf.Bytes()
				if !c.VPN && len(d) >= 14 {
					d = d[14:]
				}
				if len(d) < 28 {
					return v.Failf("short frame %x", d)
				}
				if d[4] == 0 && d[5] == 0 {
					return v.Failf("fill %d: IP id 0; frame %x", i, d)
				}
				if c.Kind != "icmp" {
					sp := int(d[20])<<8 | int(d[21])
					if sp < 32768 || sp > 60999 {
						return v.Failf("fill %d: source port %d outside 32768..60999", i, sp)
					}
				}
			}
			return v
		},
	})
}
