//go:build verif

package command

import (
	"bytes"
	"context"
	"encoding/json"
	"fmt"
	"net"
	"sort"
	"strings"
	"sync"
	"testing"
	"time"

	kit "verifkit"
	"verifkit/gram"
	"verifkit/vwire"
	"verifkit/wire"

	"github.com/google/gopacket/macs"
	"github.com/v-byte-cpu/sx/command/log"
	"github.com/v-byte-cpu/sx/pkg/scan"
	"github.com/v-byte-cpu/sx/pkg/scan/arp"
	"pgregory.net/rapid"
)

// C11: ARP output is a valid ARP cache; probes use the right destination MAC.

// ---------------------------------------------------------------- (a) frames -> arp.ScanMethod -> JSON logger -> FillCache

type c11Reply struct {
	IP  uint32 `json:"sender_ip"`
	MAC []byte `json:"sender_mac"`
	Op  uint16 `json:"op"`
}

type c11RTCase struct {
	Replies []c11Reply `json:"arp_frames"`
}

// OUI prefixes whose vendor strings need escaping in JSON (quotes, backslashes, non-ASCII, control characters)
var c11HostileOUIs = func() [][3]byte {
	var out [][3]byte
	for p, v := range macs.ValidMACPrefixMap {
		hostile := false
		for _, r := range v {
			if r == '"' || r == '\\' || r < 0x20 || r > 0x7e {
				hostile = true
			}
		}
		if hostile {
			out = append(out, p)
		}
	}
	sort.Slice(out, func(i, j int) bool { return bytes.Compare(out[i][:], out[j][:]) < 0 })
	return out
}()

func c11GenMAC(t *rapid.T) []byte {
	switch rapid.IntRange(0, 6).Draw(t, "macclass") {
	case 0:
		return []byte{0, 0, 0, 0, 0, 0}
	case 1:
		return []byte{0xff, 0xff, 0xff, 0xff, 0xff, 0xff}
	case 2, 3:
		if len(c11HostileOUIs) > 0 {
			p := c11HostileOUIs[kit.Uniform(t, "oui", len(c11HostileOUIs))]
			return []byte{p[0], p[1], p[2], rapid.Byte().Draw(t, "m3"), rapid.Byte().Draw(t, "m4"), rapid.Byte().Draw(t, "m5")}
		}
	}
	return rapid.SliceOfN(rapid.Byte(), 6, 6).Draw(t, "mac")
}

func c11RTCheck(c c11RTCase) *kit.Verdict {
	v := &kit.Verdict{Units: len(c.Replies)}
	ctx, cancel := context.WithCancel(context.Background())
	defer cancel()
	results := scan.NewResultChan(ctx, 1000)
	m := arp.NewScanMethod(nil, results)
	out := &c11Buf{}
	logger, err := log.NewLogger(out, "arp", log.JSON())
	if err != nil {
		return v.Failf("harness: %v", err)
	}
	done := make(chan struct{})
	lctx, lcancel := context.WithCancel(ctx)
	go func() { defer close(done); logger.LogResults(lctx, m.Results()) }()
	type want struct {
		ip  string
		mac string
	}
	var sent []want
	seenIP := map[uint32]int{}
	for _, r := range c.Replies {
		ipb := gram.U32Bytes(r.IP)
		fr := append(wire.Eth{Dst: [6]byte{2, 0, 0, 0, 0, 1}, Src: [6]byte{2, 9, 9, 9, 9, 9}, Type: wire.EtherARP}.Bytes(),
			wire.ARP{HType: 1, PType: 0x0800, HLen: 6, PLen: 4, Op: r.Op, SHA: r.MAC, SPA: ipb[:], THA: []byte{2, 0, 0, 0, 0, 1}, TPA: []byte{10, 250, 0, 1}}.Bytes()...)
		if err := m.ProcessPacketData(fr, nil); err != nil {
			return v.Failf("the ARP processor refused a well-formed ARP frame %x: %v", fr, err)
		}
		sent = append(sent, want{gram.U32String(r.IP), wire.MACString(r.MAC)})
		seenIP[r.IP]++
	}
	// wait until every record went through the logger
	deadline := time.Now().Add(20 * time.Second)
	for {
		n := bytes.Count(out.snapshot(), []byte("\n"))
		if n >= len(sent) || time.Now().After(deadline) {
			break
		}
		time.Sleep(200 * time.Microsecond)
	}
	lcancel()
	<-done
	text := string(out.snapshot())
	lines := strings.Split(strings.TrimSuffix(text, "\n"), "\n")
	if text == "" {
		lines = nil
	}
	if len(lines) != len(sent) {
		return v.Failf("%d ARP frames processed, %d lines printed:\n%s", len(sent), len(lines), clipN(text, 600))
	}
	last := map[string]string{}
	for i, l := range lines {
		var rec map[string]interface{}
		if err := json.Unmarshal([]byte(l), &rec); err != nil {
			return v.Failf("line %d is not a JSON object: %q (%v)", i+1, l, err)
		}
		ip, _ := rec["ip"].(string)
		mac, _ := rec["mac"].(string)
		if ip != sent[i].ip || !strings.EqualFold(mac, sent[i].mac) {
			return v.Failf("line %d %q does not carry the frame's sender %s / %s", i+1, l, sent[i].ip, sent[i].mac)
		}
		last[ip] = sent[i].mac
	}
	cache := arp.NewCache()
	if err := arp.FillCache(cache, strings.NewReader(text)); err != nil {
		return v.Failf("the ARP-cache loader refuses the ARP scan's own output: %v\noutput:\n%s", err, clipN(text, 600))
	}
	for ip, mac := range last {
		for _, form := range []net.IP{net.ParseIP(ip).To4(), net.ParseIP(ip).To16()} {
			if got := cache.Get(form); got.String() != mac {
				return v.Failf("cache loaded from the scan output maps %s (%d-byte form) to %v, the last printed line says %s\noutput:\n%s", ip, len(form), got, mac, clipN(text, 600))
			}
		}
	}
	dups := 0
	for _, n := range seenIP {
		if n > 1 {
			dups++
		}
	}
	if dups > 0 {
		v.Label("repeated-address")
	}
	v.Label("frames=%s", bucket(len(c.Replies), 0, 1, 2, 10, 100))
	v.NonTrivial = len(c.Replies) >= 2
	return v
}

// c11Buf is an output sink that the logger goroutine writes and the check polls.
type c11Buf struct {
	mu sync.Mutex
	b  bytes.Buffer
}

func (b *c11Buf) Write(p []byte) (int, error) {
	b.mu.Lock()
	defer b.mu.Unlock()
	return b.b.Write(p)
}

func (b *c11Buf) snapshot() []byte {
	b.mu.Lock()
	defer b.mu.Unlock()
	return append([]byte(nil), b.b.Bytes()...)
}

func TestC11RoundTrip(t *testing.T) {
	kit.Run(t, kit.Spec[c11RTCase]{
		Prop: "C11",
		Rule: "1..60 well-formed Ethernet/IPv4 ARP frames (any opcode; sender MAC all-zero, broadcast, random, or with an OUI whose vendor string needs JSON escaping; sender addresses repeated with different MACs) through the real arp.ScanMethod, the real JSON logger and arp.FillCache. Oracle: one line per frame carrying that frame's sender ip/mac (independent JSON decoder), FillCache accepts the output, cache.Get(ip) in 4- and 16-byte form = MAC of the last line for that ip. non-trivial: >=2 frames; distinct by case",
		Gen: func(t *rapid.T) c11RTCase {
			var c c11RTCase
			n := rapid.SampledFrom([]int{1, 2, 3, 5, 12, 60}).Draw(t, "nframes")
			for i := 0; i < n; i++ {
				r := c11Reply{IP: uint32(kit.UniformInt64(t, "ip", 0, 1<<32-1)), MAC: c11GenMAC(t), Op: rapid.SampledFrom([]uint16{2, 2, 1, 3}).Draw(t, "op")}
				if i > 0 && rapid.IntRange(0, 2).Draw(t, "repeat") == 0 {
					r.IP = c.Replies[kit.Uniform(t, "of", i)].IP
				}
				c.Replies = append(c.Replies, r)
			}
			return c
		},
		Check: c11RTCheck,
	})
}

// ---------------------------------------------------------------- (b) cache files written by hand / other tools

type c11CacheLine struct {
	V6     string `json:"ipv6_address,omitempty"` // a neighbour with an IPv6 address: says nothing about any IPv4 destination
	IP     uint32 `json:"ip"`
	Mapped bool   `json:"mapped_spelling"`
	MAC    []byte `json:"mac"`
	Upper  bool   `json:"upper_case_mac"`
	Extra  string `json:"extra_fields"`
	// an incomplete entry (as other tools write for FAILED / INCOMPLETE neighbours): "" | no-mac | null-mac | no-ip | null-ip | empty
	Broken string `json:"incomplete_entry,omitempty"`
}

func (l c11CacheLine) render() string {
	ip := gram.U32String(l.IP)
	if l.V6 != "" {
		ip = l.V6
	}
	if l.Mapped {
		ip = "::ffff:" + ip
	}
	mac := wire.MACString(l.MAC)
	if l.Upper {
		mac = strings.ToUpper(mac)
	}
	switch l.Broken {
	case "no-mac":
		return fmt.Sprintf(`{"ip":"%s"%s}`, ip, l.Extra)
	case "null-mac":
		return fmt.Sprintf(`{"ip":"%s","mac":null%s}`, ip, l.Extra)
	case "no-ip":
		return fmt.Sprintf(`{"mac":"%s"%s}`, mac, l.Extra)
	case "null-ip":
		return fmt.Sprintf(`{"ip":null,"mac":"%s"%s}`, mac, l.Extra)
	case "empty":
		return `{}`
	}
	return fmt.Sprintf(`{"ip":"%s","mac":"%s"%s}`, ip, mac, l.Extra)
}

type c11FileCase struct {
	Lines []c11CacheLine `json:"cache_lines"`
	// requests resolved afterwards: index into Lines (its address) or -1 for an address that is not in the file
	Lookups []int `json:"lookups"`
	Gateway bool  `json:"gateway_mac_present"`
	Readers int   `json:"concurrent_readers"`
	Long16  bool  `json:"requests_use_16_byte_addresses"`
	Broken  bool  `json:"file_has_incomplete_entries,omitempty"`
}

func c11GenLines(t *rapid.T, n int) []c11CacheLine {
	var ls []c11CacheLine
	for i := 0; i < n; i++ {
		l := c11CacheLine{IP: uint32(kit.UniformInt64(t, "ip", 1, 1<<32-2)), MAC: c11GenMAC(t), Mapped: rapid.IntRange(0, 3).Draw(t, "mapped") == 0,
			Upper: rapid.IntRange(0, 3).Draw(t, "upper") == 0,
			Extra: rapid.SampledFrom([]string{"", "", `,"vendor":"Acme \"Inc\""`, `,"vendor":"","seen":[1,2,{"x":null}]`, `,"scan":"arp","ttl":64`}).Draw(t, "extra")}
		if i > 0 && rapid.IntRange(0, 3).Draw(t, "dup") == 0 {
			l.IP = ls[kit.Uniform(t, "dupof", i)].IP
		}
		if rapid.IntRange(0, 7).Draw(t, "v6line") == 0 {
			l.V6 = rapid.SampledFrom([]string{"fe80::1", "fe80::a00:27ff:fe12:3456", "2001:db8::7", "::1", "::"}).Draw(t, "v6")
			l.Mapped = false
		}
		ls = append(ls, l)
	}
	return ls
}

func c11FileCheck(c c11FileCase) *kit.Verdict {
	v := &kit.Verdict{Units: len(c.Lines) + len(c.Lookups)}
	var sb strings.Builder
	last := map[uint32][]byte{}
	onBroken := map[uint32]bool{} // addresses named by an incomplete entry: the file says nothing definite about them
	broken := false
	for _, l := range c.Lines {
		sb.WriteString(l.render() + "\n")
		if l.Broken != "" {
			broken = true
			if l.V6 == "" && (l.Broken == "no-mac" || l.Broken == "null-mac") {
				onBroken[l.IP] = true
			}
			continue
		}
		if l.V6 == "" {
			last[l.IP] = l.MAC
		}
	}
	cache := arp.NewCache()
	if err := arp.FillCache(cache, strings.NewReader(sb.String())); err != nil {
		if broken {
			// a file with incomplete entries may be refused as a whole
			v.Label("incomplete-entries-refused")
			v.NonTrivial = true
			return v
		}
		return v.Failf("FillCache refused a well-formed cache file: %v\n%s", err, clipN(sb.String(), 500))
	}
	if broken {
		v.Label("incomplete-entries-accepted")
	}
	var gw net.HardwareAddr
	if c.Gateway {
		gw = c13GwMAC
	}
	// every reader resolves the whole request stream through its own generator on the shared cache
	type req struct {
		ip  uint32
		hit bool
	}
	var stream []req
	for _, li := range c.Lookups {
		if li == -2 && len(stream) > 0 {
			// the same destination again, right away (one request per port of a host)
			stream = append(stream, stream[len(stream)-1])
			continue
		}
		if li >= 0 && li < len(c.Lines) && c.Lines[li].V6 == "" {
			stream = append(stream, req{c.Lines[li].IP, true})
		} else {
			a := uint32(0x0b000000 + len(stream))
			if len(stream)%3 == 0 {
				a = 0 // 0.0.0.0: what a missing gateway address collapses to
			}
			for last[a] != nil {
				a++
			}
			stream = append(stream, req{a, false})
		}
	}
	readers := c.Readers
	if readers < 1 {
		readers = 1
	}
	errs := make(chan error, readers)
	var wg sync.WaitGroup
	for r := 0; r < readers; r++ {
		wg.Add(1)
		go func() {
			defer wg.Done()
			src := &c11ReqGen{}
			for _, q := range stream {
				b := gram.U32Bytes(q.ip)
				ip := net.IP(b[:])
				if c.Long16 {
					ip = ip.To16()
				}
				src.reqs = append(src.reqs, &scan.Request{DstIP: ip, DstPort: 80})
			}
			g := arp.NewCacheRequestGenerator(src, gw, cache)
			ch, err := g.GenerateRequests(context.Background(), &scan.Range{})
			if err != nil {
				errs <- err
				return
			}
			i := 0
			for out := range ch {
				if i >= len(stream) {
					errs <- fmt.Errorf("more requests out than in")
					return
				}
				q := stream[i]
				want := ""
				switch {
				case last[q.ip] != nil:
					want = wire.MACString(last[q.ip])
				case c.Gateway:
					want = gw.String()
				}
				ip4 := out.DstIP.To4()
				if ip4 == nil || gram.BytesU32(ip4) != q.ip {
					errs <- fmt.Errorf("request %d: destination changed from %s to %v", i, gram.U32String(q.ip), out.DstIP)
					return
				}
				if onBroken[q.ip] && (out.Err != nil || c.Gateway && net.HardwareAddr(out.DstMAC).String() == gw.String()) {
					// the file named this address without a MAC: falling back to the gateway / an error is as good as
					// the MAC of an earlier complete line
				} else if want == "" {
					if out.Err == nil {
						errs <- fmt.Errorf("request %d for %s: no cache entry and no gateway MAC, but it was not replaced by an error (dst MAC %v)", i, gram.U32String(q.ip), net.HardwareAddr(out.DstMAC))
						return
					}
				} else if out.Err != nil || net.HardwareAddr(out.DstMAC).String() != want {
					errs <- fmt.Errorf("request %d for %s: dst MAC %v err %v, expected %s (last cache line for that address, else the gateway)", i, gram.U32String(q.ip), net.HardwareAddr(out.DstMAC), out.Err, want)
					return
				}
				i++
			}
			if i != len(stream) {
				errs <- fmt.Errorf("%d requests in, %d out", len(stream), i)
			}
		}()
	}
	wg.Wait()
	close(errs)
	for e := range errs {
		return v.Failf("%v\ncache file:\n%s", e, clipN(sb.String(), 500))
	}
	if len(last) < len(c.Lines) {
		v.Label("duplicate-lines")
	}
	if c.Gateway {
		v.Label("gateway")
	}
	v.Label("readers=%s", bucket(readers, 0, 1, 2, 8, 32))
	v.NonTrivial = len(c.Lines) >= 2 && len(c.Lookups) >= 2
	return v
}

type c11ReqGen struct{ reqs []*scan.Request }

func (g *c11ReqGen) GenerateRequests(ctx context.Context, r *scan.Range) (<-chan *scan.Request, error) {
	ch := make(chan *scan.Request, 100)
	go func() {
		defer close(ch)
		for _, q := range g.reqs {
			ch <- q
		}
	}()
	return ch, nil
}

func TestC11CacheFile(t *testing.T) {
	kit.Run(t, kit.Spec[c11FileCase]{
		Prop: "C11",
		Rule: "cache files of 1..400 lines (duplicate addresses, 4-byte and ::ffff: spellings, upper/lower-case MACs, unknown extra fields, lines of IPv6 neighbours; in a fifth of the files one or two incomplete entries - no/null mac, no/null ip, {} - which the loader may refuse as a whole) loaded by arp.FillCache, then request streams (addresses in the file and not in it incl. 0.0.0.0, the same address several times in a row, 4- or 16-byte DstIP) resolved through arp.NewCacheRequestGenerator by 1..32 concurrent readers of the shared cache, gateway MAC present or absent, race detector on. Oracle: DstMAC = MAC of the last line for the request's own address, else the gateway MAC, else the request carries an error; destination unchanged; same count in and out. non-trivial: >=2 lines and >=2 lookups; distinct by case",
		Gen: func(t *rapid.T) c11FileCase {
			c := c11FileCase{Gateway: rapid.Bool().Draw(t, "gw"), Readers: rapid.SampledFrom([]int{1, 2, 8, 32}).Draw(t, "readers"), Long16: rapid.Bool().Draw(t, "long16")}
			c.Lines = c11GenLines(t, rapid.SampledFrom([]int{1, 2, 5, 20, 400}).Draw(t, "nlines"))
			if rapid.IntRange(0, 4).Draw(t, "incomplete") == 0 && len(c.Lines) >= 2 {
				// one or two incomplete entries after the first line
				c.Broken = true
				for k := rapid.IntRange(1, 2).Draw(t, "nbroken"); k > 0; k-- {
					i := 1 + kit.Uniform(t, "broken-at", len(c.Lines)-1)
					c.Lines[i].Broken = rapid.SampledFrom([]string{"no-mac", "null-mac", "no-ip", "null-ip", "empty"}).Draw(t, "broken-kind")
					if rapid.Bool().Draw(t, "broken-own-address") {
						c.Lines[i].IP = uint32(kit.UniformInt64(t, "bip", 1, 1<<32-2))
					}
				}
			}
			nl := rapid.SampledFrom([]int{1, 4, 30, 150}).Draw(t, "nlookups")
			for i := 0; i < nl; i++ {
				if k := rapid.IntRange(0, 5).Draw(t, "miss"); k == 0 {
					c.Lookups = append(c.Lookups, -1)
				} else if k == 1 {
					c.Lookups = append(c.Lookups, -2)
				} else {
					c.Lookups = append(c.Lookups, kit.Uniform(t, "line", len(c.Lines)))
				}
			}
			return c
		},
		Check: c11FileCheck,
	})
}

// ---------------------------------------------------------------- (c) full commands: arp --json | tcp/udp/icmp -a -

type c11CmdCase struct {
	Cmd     string     `json:"ip_level_command"`
	Hosts   []c11Reply `json:"hosts_answering_the_arp_scan"` // within 10.77.0.0/26
	Repeat  []int      `json:"hosts_answering_twice_with_another_mac"`
	Stdin   bool       `json:"cache_from_stdin"`
	DashA   bool       `json:"explicit_dash_a"`
	Gateway bool       `json:"gwmac"`
	Seed    int64      `json:"rand_seed"`
	// the 64 addresses come from a target list (-f); next to it the positional argument is absent ("file"), the subnet
	// ("file+subnet") or one host of it ("file+host"). "" = the subnet argument alone
	Targets string `json:"targets_from,omitempty"`
}

const c11Subnet = "10.77.0.0/26"

func c11CmdCheck(c c11CmdCase) *kit.Verdict {
	v := &kit.Verdict{Units: 64}
	v.Label("cmd=%s", c.Cmd)
	if c.Stdin {
		v.Label("cache-from-stdin")
	}
	if c.Gateway {
		v.Label("gwmac")
	}
	// 1. the ARP scan, answered by the generated hosts
	byIP := map[uint32][]c11Reply{}
	for _, h := range c.Hosts {
		byIP[h.IP] = append(byIP[h.IP], h)
	}
	for _, i := range c.Repeat {
		if i >= 0 && i < len(c.Hosts) {
			h := c.Hosts[i]
			alt := append([]byte(nil), h.MAC...)
			alt[5] ^= 0x5a
			byIP[h.IP] = append(byIP[h.IP], c11Reply{IP: h.IP, MAC: alt, Op: 2})
		}
	}
	var mu sync.Mutex
	lastMAC := map[uint32][]byte{}
	sc := vwire.Scenario{OnWrite: func(w *vwire.World, s *vwire.Socket, wr *vwire.Write) error {
		f := wire.Decode(wr.Frame, true)
		if f.ARP == nil || len(f.ARP.TPA) != 4 {
			return nil
		}
		t := gram.BytesU32(f.ARP.TPA)
		for _, h := range byIP[t] {
			ipb := gram.U32Bytes(h.IP)
			var src [6]byte
			copy(src[:], h.MAC)
			fr := append(wire.Eth{Dst: [6]byte{2, 0, 0, 0, 0, 1}, Src: src, Type: wire.EtherARP}.Bytes(),
				wire.ARP{HType: 1, PType: 0x0800, HLen: 6, PLen: 4, Op: 2, SHA: h.MAC, SPA: ipb[:], THA: []byte{2, 0, 0, 0, 0, 1}, TPA: []byte{10, 250, 0, 1}}.Bytes()...)
			if s.Inject(fr) {
				mu.Lock()
				lastMAC[h.IP] = h.MAC
				mu.Unlock()
			}
		}
		return nil
	}}
	arpArgs := []string{"arp", "-i", "lo", "--srcip", c01SrcIP, "--srcmac", c01SrcMAC, "--json", "--exit-delay", "150ms", c11Subnet}
	res := runCmd(cmdRun{Args: arpArgs, Seed: c.Seed, World: vwire.NewWorld(sc), Timeout: 60 * time.Second})
	if res.Hung || res.Err != nil {
		return v.Failf("sx %s: hung=%v err=%v", strings.Join(arpArgs, " "), res.Hung, res.Err)
	}
	cacheText := res.Stdout
	// the printed lines decide what the cache must contain (last line per address wins); every answering host must be there
	printed := map[uint32]string{}
	for _, l := range strings.Split(strings.TrimSuffix(cacheText, "\n"), "\n") {
		if l == "" {
			continue
		}
		var rec map[string]interface{}
		if err := json.Unmarshal([]byte(l), &rec); err != nil {
			return v.Failf("arp output line %q is not JSON", l)
		}
		ip, _ := rec["ip"].(string)
		mac, _ := rec["mac"].(string)
		p, ok := gram.RefIPv4Target(ip)
		if !ok {
			return v.Failf("arp output line %q: ip is not an IPv4 address", l)
		}
		printed[p.Addr] = strings.ToLower(mac)
	}
	for ip := range byIP {
		if printed[ip] == "" {
			// a reply may be lost to a very short exit delay on a loaded machine: not this property's business
			return &kit.Verdict{Inconclusive: true}
		}
	}
	// 2. the IP-level scan with that cache
	files := &cmdFiles{}
	defer files.cleanup()
	args := append([]string{}, strings.Fields(c.Cmd)...)
	args = append(args, "-i", "lo", "--srcip", c01SrcIP, "--srcmac", c01SrcMAC, "--json")
	if c.Gateway {
		// every probe resolves: nothing is queued on the error stream when the scan completes
		args = append(args, "--exit-delay", "5ms")
	} // else: the default exit delay, so that queued error records are drained before the exit
	var stdin *string
	if c.Stdin {
		stdin = &cacheText
		if c.DashA {
			args = append(args, "-a", "-")
		}
	} else {
		args = append(args, "-a", files.write("arpcache", cacheText))
	}
	if c.Gateway {
		args = append(args, "--gwmac", c13GwMAC.String())
	}
	if strings.Fields(c.Cmd)[0] != "icmp" {
		args = append(args, "-p", "80,443")
	}
	if c.Targets != "" {
		var sb strings.Builder
		b0, _ := gram.RefIPv4Target(c11Subnet)
		for i := uint32(0); i < 64; i++ {
			fmt.Fprintf(&sb, "{\"ip\":\"%s\"}\n", gram.U32String(b0.Base+i))
		}
		args = append(args, "-f", files.write("targets", sb.String()))
		v.Label("targets=%s", c.Targets)
	}
	switch c.Targets {
	case "", "file+subnet":
		args = append(args, c11Subnet)
	case "file+host":
		args = append(args, "10.77.0.5")
	}
	res2 := runCmd(cmdRun{Args: args, Stdin: stdin, Seed: c.Seed, Timeout: 60 * time.Second})
	line := "sx " + strings.Join(args, " ")
	if res2.Hung {
		return v.Failf("%s did not return\n%s", line, clipN(res2.Goroutines, 2000))
	}
	if res2.Err != nil {
		return v.Failf("%s refuses the ARP scan's own output as its cache: %v\ncache:\n%s", line, res2.Err, clipN(cacheText, 500))
	}
	perIP := map[uint32]int{}
	for _, s := range res2.Sockets {
		for _, w := range s.Writes {
			f := wire.Decode(w.Frame, true)
			if len(f.IPs) == 0 {
				return v.Failf("%s: frame without IPv4 header %x", line, w.Frame)
			}
			a := gram.BytesU32(f.IPs[0].Dst[:])
			perIP[a]++
			want := printed[a]
			if want == "" && c.Gateway {
				want = c13GwMAC.String()
			}
			if want == "" {
				return v.Failf("%s: a probe for %s was sent (to %s) although neither the cache nor --gwmac gives a MAC for it", line, gram.U32String(a), wire.MACString(f.Eth.Dst[:]))
			}
			if wire.MACString(f.Eth.Dst[:]) != want {
				return v.Failf("%s: probe for %s addressed to MAC %s, expected %s (cache line of that address, else gateway)\ncache:\n%s", line, gram.U32String(a), wire.MACString(f.Eth.Dst[:]), want, clipN(cacheText, 500))
			}
		}
	}
	if c.Targets == "file+subnet" || c.Targets == "file+host" {
		// which addresses such a combination denotes is not this property's business: every frame that left was judged
		v.NonTrivial = len(byIP) >= 2 && len(perIP) >= 2
		return v
	}
	nports := 2
	if strings.Fields(c.Cmd)[0] == "icmp" {
		nports = 1
	}
	nerr := len(errorLines(res2.Stderr))
	wantErr := 0
	base, _ := gram.RefIPv4Target(c11Subnet)
	for i := uint32(0); i < 64; i++ {
		a := base.Base + i
		resolved := printed[a] != "" || c.Gateway
		if resolved && perIP[a] != nports {
			return v.Failf("%s: %d probes for %s, expected %d", line, perIP[a], gram.U32String(a), nports)
		}
		if !resolved {
			wantErr += nports
		}
	}
	if nerr != wantErr {
		return v.Failf("%s: %d error records, expected %d (one per probe without destination MAC)\nstderr: %s", line, nerr, wantErr, clipN(res2.Stderr, 400))
	}
	v.NonTrivial = len(byIP) >= 2
	return v
}

func TestC11Commands(t *testing.T) {
	kit.Run(t, kit.Spec[c11CmdCase]{
		Prop: "C11",
		Rule: "pipeline of two full commands on the virtual wire: 'sx arp --json 10.77.0.0/26' answered by 0..12 generated hosts (some answering twice with different MACs), its stdout used verbatim as the ARP cache (-a file, -a -, or default stdin) of tcp / tcp fin / udp / icmp over the same subnet (given as the argument, as a target list with -f, or as a list next to a subnet or single-host argument), with or without --gwmac. Oracle: the second command accepts the cache; the Ethernet destination of every probe = MAC of the last printed line for that probe's own address, else the gateway MAC; without either no frame and one error record per probe. non-trivial: >=2 answering hosts; distinct by case",
		Gen: func(t *rapid.T) c11CmdCase {
			c := c11CmdCase{Cmd: rapid.SampledFrom([]string{"tcp", "tcp fin", "udp", "icmp"}).Draw(t, "cmd"), Stdin: rapid.Bool().Draw(t, "stdin"),
				Gateway: rapid.Bool().Draw(t, "gw"), Seed: rapid.Int64().Draw(t, "seed"), DashA: rapid.Bool().Draw(t, "dash-a")}
			c.Targets = rapid.SampledFrom([]string{"", "", "", "file", "file+subnet", "file+host"}).Draw(t, "targets")
			n := rapid.SampledFrom([]int{0, 1, 2, 5, 12}).Draw(t, "nhosts")
			used := map[uint32]bool{}
			for len(c.Hosts) < n {
				a := uint32(10<<24|77<<16) + uint32(kit.Uniform(t, "host", 64))
				if used[a] {
					continue
				}
				used[a] = true
				c.Hosts = append(c.Hosts, c11Reply{IP: a, MAC: c11GenMAC(t), Op: 2})
			}
			for i := range c.Hosts {
				if rapid.IntRange(0, 3).Draw(t, "twice") == 0 {
					c.Repeat = append(c.Repeat, i)
				}
			}
			return c
		},
		Check: c11CmdCheck,
	})
}
