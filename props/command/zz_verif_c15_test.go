//go:build verif

package command

import (
	"context"
	"fmt"
	"math/rand"
	"sort"
	"strings"
	"sync"
	"sync/atomic"
	"testing"
	"time"

	kit "verifkit"
	"verifkit/vwire"
	"verifkit/wire"

	"github.com/google/gopacket"
	"github.com/v-byte-cpu/sx/pkg/packet"
	"github.com/v-byte-cpu/sx/pkg/scan"
	"pgregory.net/rapid"
)

// C15: rate limit - probes never leave faster than the configured rate.

// burst allowance checked: the limiter (uber ratelimit v0.2.0, default slack 10) hands out slots with
// slot_j - slot_i >= (j-i-10)*per; a write is observed no earlier than its slot and (sequential sender) no later than
// the next slot; one more for tolerance. See DESIGN.md C15.
const c15Burst = 12
const c15Tol = 200 * time.Microsecond

// ---------------------------------------------------------------- 1. algebra with a counting limiter

type c15Limiter struct {
	mu    sync.Mutex
	takes int64
	log   *[]byte // shared event log (sequential test only)
}

func (l *c15Limiter) Take() time.Time {
	l.mu.Lock()
	l.takes++
	if l.log != nil {
		*l.log = append(*l.log, 'T')
	}
	l.mu.Unlock()
	return time.Time{}
}

type c15RW struct {
	mu     sync.Mutex
	log    *[]byte
	writes int
	reads  int
	failAt map[int]bool
}

func (w *c15RW) WritePacketData(p []byte) error {
	w.mu.Lock()
	defer w.mu.Unlock()
	*w.log = append(*w.log, 'W')
	w.writes++
	if w.failAt[w.writes] {
		return fmt.Errorf("write %d fails", w.writes)
	}
	return nil
}

func (w *c15RW) ReadPacketData() ([]byte, *gopacket.CaptureInfo, error) {
	w.mu.Lock()
	defer w.mu.Unlock()
	*w.log = append(*w.log, 'R')
	w.reads++
	return []byte{1}, &gopacket.CaptureInfo{}, nil
}

type c15AlgCase struct {
	Ops     string `json:"ops"`     // W write, R read, F failing write
	Workers int    `json:"workers"` // scanner part
	Scans   int    `json:"scans"`
	FailMod int    `json:"scan_fails_every"`
}

type c15CountScanner struct {
	lim     *c15Limiter
	started int64
	bad     int64
	failMod int
}

func (s *c15CountScanner) Scan(ctx context.Context, r *scan.Request) (scan.Result, error) {
	n := atomic.AddInt64(&s.started, 1)
	s.lim.mu.Lock()
	t := s.lim.takes
	s.lim.mu.Unlock()
	if t < n {
		atomic.AddInt64(&s.bad, 1) // a probe started that no Take has paid for yet
	}
	if s.failMod > 0 && int(n)%s.failMod == 0 {
		return nil, fmt.Errorf("scan %d fails", n)
	}
	return nil, nil
}

func c15AlgCheck(c c15AlgCase) *kit.Verdict {
	v := &kit.Verdict{Units: len(c.Ops) + c.Scans}
	var log []byte
	lim := &c15Limiter{log: &log}
	rwd := &c15RW{log: &log, failAt: map[int]bool{}}
	nw := 0
	for _, op := range c.Ops {
		if op == 'W' || op == 'F' {
			nw++
			if op == 'F' {
				rwd.failAt[nw] = true
			}
		}
	}
	rw := packet.NewRateLimitReadWriter(rwd, lim)
	for _, op := range c.Ops {
		switch op {
		case 'R':
			rw.ReadPacketData()
		default:
			rw.WritePacketData([]byte{0})
		}
	}
	// every W is immediately preceded by its own T; reads never take
	want := make([]byte, 0, len(c.Ops)*2)
	for _, op := range c.Ops {
		if op == 'R' {
			want = append(want, 'R')
		} else {
			want = append(want, 'T', 'W')
		}
	}
	if string(log) != string(want) {
		return v.Failf("operations %q on the rate-limited read/writer gave the event sequence %q, expected %q (T = limiter.Take, W = delegate write, R = delegate read)", c.Ops, clipN(string(log), 200), clipN(string(want), 200))
	}
	// scanner wrapper under concurrency
	lim2 := &c15Limiter{}
	cs := &c15CountScanner{lim: lim2, failMod: c.FailMod}
	sc := scan.NewRateLimitScanner(cs, lim2)
	var wg sync.WaitGroup
	jobs := make(chan int, c.Scans)
	for i := 0; i < c.Scans; i++ {
		jobs <- i
	}
	close(jobs)
	for w := 0; w < c.Workers; w++ {
		wg.Add(1)
		go func() {
			defer wg.Done()
			for range jobs {
				sc.Scan(context.Background(), &scan.Request{})
			}
		}()
	}
	wg.Wait()
	if lim2.takes != int64(c.Scans) || cs.started != int64(c.Scans) {
		return v.Failf("%d probes through the rate-limited scanner (%d workers): %d Take calls, %d delegate scans - every probe must be charged exactly once", c.Scans, c.Workers, lim2.takes, cs.started)
	}
	if cs.bad > 0 {
		return v.Failf("%d of %d probes started before a Take had been paid for them", cs.bad, c.Scans)
	}
	v.NonTrivial = strings.ContainsAny(c.Ops, "WF") && strings.Contains(c.Ops, "R") && c.Scans > 1
	return v
}

func TestC15Algebra(t *testing.T) {
	kit.Run(t, kit.Spec[c15AlgCase]{
		Prop: "C15",
		Rule: "operation sequences (write / failing write / read, 0..200) on packet.NewRateLimitReadWriter with a counting limiter, and 0..2000 probes through scan.NewRateLimitScanner from 1..64 concurrent workers (some probes failing). Oracle: event log = one Take immediately before every write and none for reads; #Take = #Scan, no probe starts before a Take paid for it. non-trivial: writes and reads mixed and >1 probe; distinct by case",
		Gen: func(t *rapid.T) c15AlgCase {
			n := rapid.SampledFrom([]int{0, 1, 5, 40, 200}).Draw(t, "nops")
			var sb strings.Builder
			for i := 0; i < n; i++ {
				sb.WriteByte("WWWRRF"[rapid.IntRange(0, 5).Draw(t, "op")])
			}
			return c15AlgCase{Ops: sb.String(), Workers: rapid.SampledFrom([]int{1, 2, 8, 64}).Draw(t, "workers"),
				Scans: rapid.SampledFrom([]int{0, 1, 2, 100, 2000}).Draw(t, "scans"), FailMod: rapid.SampledFrom([]int{0, 1, 3}).Draw(t, "failmod")}
		},
		Check: c15AlgCheck,
	})
}

// ---------------------------------------------------------------- 2. timing of full packet-scan commands

type c15RateCase struct {
	Cmd     string `json:"command"`
	Count   int    `json:"rate_count"`
	Window  string `json:"rate_window"` // "" => "--rate N" (per second)
	Probes  int    `json:"probes"`
	Chunked bool   `json:"more_than_200_port_ranges"`
	VPN     bool   `json:"vpn"`
	StopMs  int    `json:"sigint_after_ms"`                      // slow rates: the scan is interrupted; whatever was written by then is judged
	StallAt int    `json:"wire_stalls_inside_write,omitempty"`   // the wire blocks inside this write (1-based) ...
	StallN  int    `json:"stall_lasts_rate_intervals,omitempty"` // ... for this many rate intervals: afterwards at most the fixed burst may leave at once
	Seed    int64  `json:"rand_seed"`
}

func c15Window(w string) time.Duration {
	if w == "" {
		return time.Second
	}
	if w[0] < '0' || w[0] > '9' {
		w = "1" + w
	}
	d, err := time.ParseDuration(w)
	if err != nil {
		panic(err)
	}
	return d
}

func c15CheckSpans(times []time.Time, per time.Duration, allowance int) (bad string, tight int) {
	for i := 0; i < len(times); i++ {
		for j := i + 1 + allowance; j < len(times); j++ {
			need := time.Duration(j-i-allowance)*per - c15Tol
			if need > 0 {
				tight++
			}
			if got := times[j].Sub(times[i]); got < need {
				return fmt.Sprintf("probes %d..%d (%d consecutive) left within %v; at the configured rate they need at least %v (burst allowance %d)", i+1, j+1, j-i+1, got, need, allowance), tight
			}
		}
	}
	return "", tight
}

func c15RateCheck(c c15RateCase) *kit.Verdict {
	v := &kit.Verdict{Units: c.Probes}
	base := strings.Fields(c.Cmd)[0]
	W := c15Window(c.Window)
	per := W / time.Duration(c.Count)
	v.Label("cmd=%s", c.Cmd)
	v.Label("per=%s", bucket(int(per/time.Microsecond), 0, 300, 1000, 5000, 20000))
	if W > time.Second {
		v.Label("window>1s")
	} else if W < time.Second {
		v.Label("window<1s")
	}
	files := &cmdFiles{}
	defer files.cleanup()
	args := append([]string{}, strings.Fields(c.Cmd)...)
	args = append(args, "-i", "lo", "--srcip", c01SrcIP, "--json", "--exit-delay", "5ms")
	rate := fmt.Sprint(c.Count)
	if c.Window != "" {
		rate += "/" + c.Window
	}
	args = append(args, "--rate", rate)
	if base == "arp" {
		args = append(args, "--srcmac", c01SrcMAC)
	} else if !c.VPN {
		args = append(args, "--srcmac", c01SrcMAC, "--gwmac", c01GwMAC, "-a", files.write("arpcache", ""))
	}
	target := "10.9.8.7"
	if cmdPortless(base) {
		// 2^k addresses >= Probes
		bits := 32
		for (1 << uint(32-bits)) < c.Probes {
			bits--
		}
		target = fmt.Sprintf("10.9.0.0/%d", bits)
	} else if c.Chunked {
		var ps []string
		for p := 0; p < c.Probes; p++ {
			ps = append(ps, fmt.Sprint(1000+2*p))
		}
		args = append(args, "-p", strings.Join(ps, ","))
	} else {
		args = append(args, "-p", fmt.Sprintf("2000-%d", 2000+c.Probes-1))
	}
	args = append(args, target)
	var world *vwire.World
	if c.StopMs > 0 || c.StallAt > 0 {
		if c.StopMs > 0 {
			v.Label("sub-hertz-rate")
		}
		if c.StallAt > 0 {
			v.Label("wire-stall")
		}
		var once sync.Once
		var nw int64
		world = vwire.NewWorld(vwire.Scenario{OnWrite: func(w *vwire.World, s *vwire.Socket, wr *vwire.Write) error {
			if c.StopMs > 0 {
				once.Do(func() { w.After(time.Duration(c.StopMs)*time.Millisecond, sendSIGINT) })
			}
			if c.StallAt > 0 && int(atomic.AddInt64(&nw, 1)) == c.StallAt {
				time.Sleep(time.Duration(c.StallN) * per)
			}
			return nil
		}})
	}
	res := runCmd(cmdRun{Args: args, Seed: c.Seed, World: world, Timeout: 120 * time.Second})
	line := "sx " + strings.Join(args, " ")
	if res.Hung || res.Err != nil {
		return v.Failf("%s: hung=%v err=%v\n%s", line, res.Hung, res.Err, clipN(res.Stderr, 300))
	}
	total, tight := 0, 0
	for _, s := range res.Sockets {
		var ts []time.Time
		for _, w := range s.Writes {
			ts = append(ts, w.At)
		}
		total += len(ts)
		bad, tg := c15CheckSpans(ts, per, c15Burst)
		tight += tg
		if bad != "" {
			return v.Failf("%s\n%s (socket %d of %d, %d frames)", line, bad, s.Index+1, len(res.Sockets), len(ts))
		}
	}
	if total < c.Probes && c.StopMs == 0 {
		return v.Failf("%s: c15Burst+2 frames written, expected at least %d", line, total, c.Probes)
	}
	if c.StopMs > 0 {
		// the bound is positive for any c15Burst+2 frames: the check above has judged them
		v.NonTrivial = total >= 1
		return v
	}
	if len(res.Sockets) > 1 {
		v.Label("chunked")
	}
	v.NonTrivial = tight > 0
	return v
}

var c15Windows = []string{"", "s", "1s", "2s", "0.5s", "100ms", "10ms", "20ms", "3ms", "500us", "1m", "1.5s", "m", "h", "ms", "us", "µs", "1h", "0.1m"}

func c15GenRate(t *rapid.T, minPer, maxPer time.Duration) (count int, window string, per time.Duration) {
	window = rapid.SampledFrom(c15Windows).Draw(t, "window")
	W := c15Window(window)
	target := time.Duration(kit.UniformInt64(t, "per-ns", int64(minPer), int64(maxPer)))
	count = int(W / target)
	if count < 1 {
		count = 1
	}
	return count, window, W / time.Duration(count)
}

func TestC15Rate(t *testing.T) {
	kit.Run(t, kit.Spec[c15RateCase]{
		Prop: "C15",
		Rule: "full packet-scan commands (arp, icmp, udp, tcp variants; Ethernet and raw-IP; <=200 and >200 port ranges, i.e. one limiter per chunk) with --rate N or N/W, W in {s,1s,2s,1.5s,m,1m,0.1m,h,1h,0.5s,ms,100ms,20ms,10ms,3ms,us,500us}, N drawn so that W/N is 0.15..25 ms, 17..600 probes (about 1 s of sending); also rates below one probe per second (1/2s, 3/5s, 20/m ...) with the scan interrupted after 1.2 s, and one case in sixteen far below it (1/m, 2/m, 30/h, 1/90s) watched for 14.5 s; in a third of the longer scans the wire blocks inside one early write for 25..60 rate intervals. Observed: monotonic time of every WritePacketData on the virtual wire. Oracle (lower bound only): for all i<j on one socket t_j - t_i >= (j-i-12)*W/N - 200us. non-trivial: some pair has a positive bound; distinct by case",
		Gen: func(t *rapid.T) c15RateCase {
			c := c15RateCase{Cmd: rapid.SampledFrom(c01PacketCmds).Draw(t, "cmd"), Seed: rapid.Int64().Draw(t, "seed")}
			var per time.Duration
			c.Count, c.Window, per = c15GenRate(t, 150*time.Microsecond, 25*time.Millisecond)
			n := int(time.Second/per) + c15Burst + 5
			if n > 600 {
				n = 600
			}
			if per > 300*time.Millisecond {
				n = c15Burst + 3 // window larger than our patience (e.g. 1/1m cannot be reached: count>=1 gives per<=W)
			}
			c.Probes = n
			base := strings.Fields(c.Cmd)[0]
			if base != "arp" {
				c.VPN = rapid.Bool().Draw(t, "vpn")
			}
			if !cmdPortless(base) && n > 210 {
				c.Chunked = rapid.IntRange(0, 2).Draw(t, "chunked") == 0
			}
			if rapid.IntRange(0, 5).Draw(t, "sub-hertz") == 0 {
				// fewer than one probe per second: 1/2s, 3/5s, 20/m ... ; the scan is interrupted after 1.2 s
				r := rapid.SampledFrom([][2]string{{"1", "2s"}, {"3", "5s"}, {"20", "m"}, {"1", "1500ms"}, {"2", "3s"}}).Draw(t, "slowrate")
				fmt.Sscan(r[0], &c.Count)
				c.Window, c.Probes, c.Chunked, c.StopMs = r[1], 32, false, 1200
			} else if kit.Uniform(t, "long-slow", 16) == 13 {
				// far below one probe per second, watched for 14.5 s: an error of less than one probe per second stays inside
				// the start-up burst allowance for ten seconds, whatever the rate
				r := rapid.SampledFrom([][2]string{{"1", "m"}, {"2", "m"}, {"30", "h"}, {"1", "90s"}}).Draw(t, "veryslowrate")
				fmt.Sscan(r[0], &c.Count)
				c.Window, c.Probes, c.Chunked, c.StopMs = r[1], 32, false, 14500
			} else if c.Probes > 80 && rapid.IntRange(0, 2).Draw(t, "stall") == 0 {
				// the wire (a full tx queue) blocks one write for 25..60 rate intervals: when it comes back, at most
				// the limiter's fixed burst may leave back to back, not everything that "should" have left meanwhile
				c.StallAt = rapid.IntRange(2, 20).Draw(t, "stall-at")
				c.StallN = rapid.IntRange(25, 60).Draw(t, "stall-n")
			}
			return c
		},
		Check: c15RateCheck,
	})
}

// ---------------------------------------------------------------- 3. application scans: probe start times

type c15AppCase struct {
	Cmd     string `json:"command"`
	Count   int    `json:"rate_count"`
	Window  string `json:"rate_window"`
	Probes  int    `json:"probes"`
	Workers int    `json:"workers"`
	StopMs  int    `json:"cancel_after_ms"`
	Seed    int64  `json:"rand_seed"`
}

type c15TimeScanner struct {
	mu    sync.Mutex
	times []time.Time
}

func (s *c15TimeScanner) Scan(ctx context.Context, r *scan.Request) (scan.Result, error) {
	now := time.Now()
	s.mu.Lock()
	s.times = append(s.times, now)
	s.mu.Unlock()
	return nil, nil
}

func c15AppCheck(c c15AppCase) *kit.Verdict {
	v := &kit.Verdict{Units: c.Probes}
	W := c15Window(c.Window)
	per := W / time.Duration(c.Count)
	v.Label("cmd=%s", c.Cmd)
	v.Label("workers=%s", bucket(c.Workers, 1, 2, 10, 100))
	rate := fmt.Sprint(c.Count)
	if c.Window != "" {
		rate += "/" + c.Window
	}
	args := []string{"--rate", rate, "-w", fmt.Sprint(c.Workers), "-p", fmt.Sprintf("3000-%d", 3000+c.Probes-1), "10.9.8.7"}
	opts, rest, err := appCmdOpts(c.Cmd, args)
	if err != nil {
		return v.Failf("sx %s %s: %v", c.Cmd, strings.Join(args, " "), err)
	}
	r, err := opts.parseScanRange(rest)
	if err != nil {
		return v.Failf("scan range: %v", err)
	}
	rand.Seed(c.Seed)
	ctx, cancel := context.WithCancel(context.Background())
	defer cancel()
	rec := &c15TimeScanner{}
	engine := opts.newScanEngine(ctx, rec)
	done, errc := engine.Start(ctx, r)
	go func() {
		for range errc {
		}
	}()
	if c.StopMs > 0 {
		v.Label("sub-hertz-rate")
		time.AfterFunc(time.Duration(c.StopMs)*time.Millisecond, cancel)
	}
	select {
	case <-done:
	case <-time.After(120 * time.Second):
		return v.Failf("engine did not finish")
	}
	rec.mu.Lock()
	ts := append([]time.Time(nil), rec.times...)
	rec.mu.Unlock()
	if len(ts) != c.Probes && c.StopMs == 0 {
		return v.Failf("%d probes started, expected %d", len(ts), c.Probes)
	}
	sort.Slice(ts, func(i, j int) bool { return ts[i].Before(ts[j]) })
	// a probe may be delayed between its Take and its start: at most one per worker at any instant
	bad, tight := c15CheckSpans(ts, per, c15Burst+c.Workers)
	if bad != "" {
		return v.Failf("sx %s %s\n%s", c.Cmd, strings.Join(args, " "), bad)
	}
	v.NonTrivial = tight > 0
	return v
}

func TestC15AppRate(t *testing.T) {
	kit.Run(t, kit.Spec[c15AppCase]{
		Prop: "C15",
		Rule: "socks / docker / elastic option parsing (--rate N[/W], -w workers) and genericScanCmdOpts.newScanEngine with a scanner that records the monotonic start time of every probe; workers 1..100, W/N 0.3..10 ms, up to 700 probes. Oracle (lower bound only, sorted start times): t_j - t_i >= (j-i-12-workers)*W/N - 200us (a probe can be delayed between being charged and starting, at most one per worker at a time). non-trivial: some pair has a positive bound; distinct by case",
		Gen: func(t *rapid.T) c15AppCase {
			c := c15AppCase{Cmd: rapid.SampledFrom([]string{"socks", "docker", "elastic"}).Draw(t, "cmd"), Seed: rapid.Int64().Draw(t, "seed"),
				Workers: rapid.SampledFrom([]int{1, 2, 10, 100}).Draw(t, "workers")}
			var per time.Duration
			c.Count, c.Window, per = c15GenRate(t, 300*time.Microsecond, 10*time.Millisecond)
			n := int(time.Second/per) + c15Burst + c.Workers + 5
			if n > 700 {
				n = 700
			}
			if n < c15Burst+c.Workers+20 {
				n = c15Burst + c.Workers + 20
			}
			if per > 300*time.Millisecond {
				n = 5
			}
			c.Probes = n
			if rapid.IntRange(0, 5).Draw(t, "sub-hertz") == 0 {
				r := rapid.SampledFrom([][2]string{{"1", "2s"}, {"3", "5s"}, {"20", "m"}, {"1", "1500ms"}}).Draw(t, "slowrate")
				fmt.Sscan(r[0], &c.Count)
				c.Window, c.Probes, c.StopMs = r[1], c15Burst+c.Workers+20, 1200
			}
			return c
		},
		Check: c15AppCheck,
	})
}

// ---------------------------------------------------------------- 3b. application scans: burst after a stall of the whole worker pool

type c15StallCase struct {
	Cmd     string `json:"command"`
	Count   int    `json:"rate_count"`
	Window  string `json:"rate_window"`
	Workers int    `json:"workers"`
	After   int    `json:"fast_probes_after_the_stall"`
	Seed    int64  `json:"rand_seed"`
}

type c15StallScanner struct {
	mu      sync.Mutex
	workers int
	blocked int
	allIn   chan struct{}
	release chan struct{}
	after   []time.Time
}

func (s *c15StallScanner) Scan(ctx context.Context, r *scan.Request) (scan.Result, error) {
	now := time.Now()
	s.mu.Lock()
	if s.blocked < s.workers {
		s.blocked++
		if s.blocked == s.workers {
			close(s.allIn)
		}
		s.mu.Unlock()
		select {
		case <-s.release:
		case <-ctx.Done():
		}
		return nil, nil
	}
	s.after = append(s.after, now)
	s.mu.Unlock()
	return nil, nil
}

// While every worker is held inside a slow probe nobody can charge the limiter; when they are released at time R the
// limiter may have banked at most its fixed slack (10 slots), whatever the worker count and however long the stall:
// the m-th probe started after R starts no earlier than R + (m-12)*per. No allowance for the worker count is needed
// here, because start times can only be later than the limiter's slots and all of these slots are >= R.
func c15StallCheck(c c15StallCase) *kit.Verdict {
	v := &kit.Verdict{Units: c.Workers + c.After}
	W := c15Window(c.Window)
	per := W / time.Duration(c.Count)
	v.Label("cmd=%s", c.Cmd)
	v.Label("workers=%s", bucket(c.Workers, 1, 2, 11, 30, 100))
	rate := fmt.Sprint(c.Count)
	if c.Window != "" {
		rate += "/" + c.Window
	}
	n := c.Workers + c.After
	args := []string{"--rate", rate, "-w", fmt.Sprint(c.Workers), "-p", fmt.Sprintf("3000-%d", 3000+n-1), "10.9.8.7"}
	opts, rest, err := appCmdOpts(c.Cmd, args)
	if err != nil {
		return v.Failf("sx %s %s: %v", c.Cmd, strings.Join(args, " "), err)
	}
	r, err := opts.parseScanRange(rest)
	if err != nil {
		return v.Failf("scan range: %v", err)
	}
	rand.Seed(c.Seed)
	ctx, cancel := context.WithCancel(context.Background())
	defer cancel()
	sc := &c15StallScanner{workers: c.Workers, allIn: make(chan struct{}), release: make(chan struct{})}
	engine := opts.newScanEngine(ctx, sc)
	done, errc := engine.Start(ctx, r)
	go func() {
		for range errc {
		}
	}()
	select {
	case <-sc.allIn:
	case <-time.After(120 * time.Second):
		return v.Failf("sx %s %s: the first %d probes never all started", c.Cmd, strings.Join(args, " "), c.Workers)
	}
	// stall long enough for a limiter to bank whatever it is willing to bank
	time.Sleep(time.Duration(c.Workers+15) * per)
	R := time.Now()
	close(sc.release)
	select {
	case <-done:
	case <-time.After(120 * time.Second):
		return v.Failf("engine did not finish")
	}
	sc.mu.Lock()
	ts := append([]time.Time(nil), sc.after...)
	sc.mu.Unlock()
	if len(ts) != c.After {
		return v.Failf("%d probes after the stall, expected %d", len(ts), c.After)
	}
	sort.Slice(ts, func(i, j int) bool { return ts[i].Before(ts[j]) })
	tight := 0
	for m := 1; m <= len(ts); m++ {
		need := time.Duration(m-c15Burst)*per - c15Tol
		if need <= 0 {
			continue
		}
		tight++
		if got := ts[m-1].Sub(R); got < need {
			return v.Failf("sx %s %s\nall %d workers were held in slow probes for %v; after their release the %d-th further probe started after %v, at the configured rate it cannot start before %v (burst allowance %d, independent of the worker count)",
				c.Cmd, strings.Join(args, " "), c.Workers, time.Duration(c.Workers+15)*per, m, got, need, c15Burst)
		}
	}
	v.NonTrivial = tight > 0 && c.Workers >= 2
	return v
}

func TestC15AppStall(t *testing.T) {
	kit.Run(t, kit.Spec[c15StallCase]{
		Prop: "C15",
		Rule: "socks / docker / elastic with --rate N[/W] (W/N 1..6 ms) and 1..100 workers: the first probes (one per worker) are slow and hold the whole worker pool for (workers+15)*W/N, then 30..140 fast probes follow. Oracle (lower bound only): the m-th probe started after the release starts no earlier than release + (m-12)*W/N - 200us - the burst allowance is fixed, it does not grow with the worker count or the stall. non-trivial: >=2 workers and some positive bound; distinct by case",
		Gen: func(t *rapid.T) c15StallCase {
			c := c15StallCase{Cmd: rapid.SampledFrom([]string{"socks", "docker", "elastic"}).Draw(t, "cmd"), Seed: rapid.Int64().Draw(t, "seed"),
				Workers: rapid.SampledFrom([]int{1, 2, 11, 30, 60, 100}).Draw(t, "workers")}
			c.Count, c.Window, _ = c15GenRate(t, time.Millisecond, 6*time.Millisecond)
			c.After = c.Workers + 30 + rapid.IntRange(0, 10).Draw(t, "extra")
			return c
		},
		Check: c15StallCheck,
	})
}

// ---------------------------------------------------------------- 4. receiving is not slowed by the limiter

type c15RecvCase struct {
	Cmd     string `json:"command"`
	Replies int    `json:"replies_to_first_probe"`
	Seed    int64  `json:"rand_seed"`
}

func c15RecvCheck(c c15RecvCase) *kit.Verdict {
	v := &kit.Verdict{Units: c.Replies}
	v.Label("cmd=%s", c.Cmd)
	pendingAt3 := -1
	var injected int
	sc := vwire.Scenario{OnWrite: func(w *vwire.World, s *vwire.Socket, wr *vwire.Write) error {
		switch wr.Seq {
		case 1:
			for i := 0; i < c.Replies; i++ {
				src := [4]byte{10, 9, 8, byte(8 + i%4)}
				var fr []byte
				if c.Cmd == "arp" {
					fr = append(wire.Eth{Dst: [6]byte{2, 0, 0, 0, 0, 1}, Src: [6]byte{2, 1, 1, 1, 1, byte(i)}, Type: wire.EtherARP}.Bytes(),
						wire.ARP{HType: 1, PType: 0x0800, HLen: 6, PLen: 4, Op: 2, SHA: []byte{2, 1, 1, 1, 1, byte(i)}, SPA: src[:], THA: []byte{2, 0, 0, 0, 0, 1}, TPA: []byte{10, 250, 0, 1}}.Bytes()...)
				} else {
					ip := wire.IPv4{ID: uint16(i + 1), Flags: 2, TTL: 60, Proto: wire.ProtoICMP, Src: src, Dst: [4]byte{10, 250, 0, 1}}.Bytes(wire.ICMP{Type: 0, Code: 0, ID: 1, Seq: uint16(i)}.Bytes([]byte("x")))
					fr = append(wire.Eth{Dst: [6]byte{2, 0, 0, 0, 0, 1}, Src: [6]byte{2, 0, 0, 0, 0, 2}, Type: wire.EtherIPv4}.Bytes(), ip...)
				}
				if s.Inject(fr) {
					injected++
				}
			}
		case 3:
			pendingAt3 = s.Pending()
		}
		return nil
	}}
	files := &cmdFiles{}
	defer files.cleanup()
	args := []string{c.Cmd, "-i", "lo", "--srcip", c01SrcIP, "--srcmac", c01SrcMAC, "--json", "--exit-delay", "50ms", "--rate", "1/300ms"}
	if c.Cmd != "arp" {
		args = append(args, "--gwmac", c01GwMAC, "-a", files.write("arpcache", ""))
	}
	args = append(args, "10.9.8.8/30")
	res := runCmd(cmdRun{Args: args, Seed: c.Seed, World: vwire.NewWorld(sc), Timeout: 60 * time.Second})
	line := "sx " + strings.Join(args, " ")
	if res.Hung || res.Err != nil {
		return v.Failf("%s: hung=%v err=%v", line, res.Hung, res.Err)
	}
	if injected != c.Replies {
		return v.Failf("harness: %d of %d replies passed the filter", injected, c.Replies)
	}
	if pendingAt3 != 0 {
		return v.Failf("%s\n%d replies arrived right after probe 1; when probe 3 was written (two rate-limit intervals, 600 ms, later) %d of them had still not been read from the socket: receiving is slowed by the limiter", line, c.Replies, pendingAt3)
	}
	if n := strings.Count(res.Stdout, "\n"); n != c.Replies {
		return v.Failf("%s: %d replies, %d records printed", line, c.Replies, n)
	}
	v.NonTrivial = c.Replies >= 2
	return v
}

func TestC15Receive(t *testing.T) {
	kit.Run(t, kit.Spec[c15RecvCase]{
		Prop: "C15",
		Rule: "arp / icmp over a /30 with --rate 1/300ms; 1..40 reply frames arrive right after the first probe. Oracle: when the third probe is written (>= 600 ms later) every reply has been read from the socket, and all are printed. non-trivial: >=2 replies; distinct by case",
		Gen: func(t *rapid.T) c15RecvCase {
			return c15RecvCase{Cmd: rapid.SampledFrom([]string{"arp", "icmp"}).Draw(t, "cmd"), Replies: rapid.SampledFrom([]int{1, 2, 3, 10, 40}).Draw(t, "replies"), Seed: rapid.Int64().Draw(t, "seed")}
		},
		Check: c15RecvCheck,
	})
}
