//go:build verif

package command

import (
	"bytes"
	"context"
	"encoding/hex"
	"encoding/json"
	"fmt"
	"os"
	"os/exec"
	"sort"
	"strings"
	"sync"
	"testing"
	"time"

	kit "verifkit"
	"verifkit/gram"
	"verifkit/shape"
	"verifkit/wire"

	"pgregory.net/rapid"
)

// C03 / C16 on real sockets: the real sx binary in a network namespace, the kernel's BPF, the real AF_PACKET adapter.
// Frames are injected on the far end of the veth pair (or written into the tun device) as reactions to probes.

type c03nsCase struct {
	Cmd    string           `json:"command"`
	Tun    bool             `json:"through_tun_device"`
	Ports  []gram.PortRange `json:"ports,omitempty"`
	Bits   int              `json:"prefix_bits"`
	Events []c03Event       `json:"traffic"`
	Late   bool             `json:"last_reply_late_within_exit_delay"`
	Rate   string           `json:"rate,omitempty"`                      // stretches the scan: a long quiet phase before the only reply
	OneCPU bool             `json:"scanner_pinned_to_one_cpu,omitempty"` // a one-vCPU host (taskset -c 0): worker pools sized from the CPU count
}

const (
	c03nsMAC    = "02:00:00:00:00:01"
	c03nsExitMs = 400
)

// the scanned subnet: inside the interface's network, clear of the interface's own address (.2)
func c03nsSubnet(c c03nsCase) string {
	host := 16
	if c.Bits <= 27 {
		host = 32
	}
	if c.Tun {
		return fmt.Sprintf("10.8.0.%d/%d", host, c.Bits)
	}
	return fmt.Sprintf("192.168.50.%d/%d", host, c.Bits)
}

// extra scenario keys / arguments for callers that drive the same topology differently (C12: interrupts); guarded by the mutex
var (
	c03nsExtra         sync.Mutex
	c03nsExtraScenario map[string]interface{}
	c03nsExtraArgs     []string
)

func c03nsRun(c c03nsCase, exitMs int) (*c17Report, []string, error) {
	sx, tool := os.Getenv("VERIF_SX_BIN"), os.Getenv("VERIF_TOOL_NSRUN")
	if sx == "" || tool == "" {
		return nil, nil, fmt.Errorf("VERIF_SX_BIN / VERIF_TOOL_NSRUN not set")
	}
	iface, subnet := "e0", c03nsSubnet(c)
	if c.Tun {
		iface = "t0"
	}
	args := append([]string{}, strings.Fields(c.Cmd)...)
	args = append(args, "--json", "--exit-delay", fmt.Sprintf("%dms", exitMs), "--srcip", c01SrcIP)
	base := strings.Fields(c.Cmd)[0]
	if base != "arp" {
		args = append(args, "--gwmac", c01GwMAC, "-a", "/dev/null")
	}
	if len(c.Ports) > 0 {
		args = append(args, "-p", renderPorts(c.Ports))
	}
	if c.Rate != "" {
		args = append(args, "--rate", c.Rate)
	}
	args = append(args, c03nsExtraArgs...)
	args = append(args, subnet)
	var inj []map[string]interface{}
	for _, e := range c.Events {
		inj = append(inj, map[string]interface{}{"iface": iface, "after": e.AtWrite, "hex": hex.EncodeToString(e.Frame), "delay_ms": e.DelayMs})
	}
	sc := map[string]interface{}{
		"ifaces": []map[string]interface{}{
			{"name": "e0", "kind": "veth", "addrs": []string{"192.168.50.2/24"}, "disable_ipv6": true, "mac": c03nsMAC},
			{"name": "t0", "kind": "tun", "addrs": []string{"10.8.0.2/24"}, "disable_ipv6": true}},
		"routes": []interface{}{}, "inject": inj, "sx_bin": sx, "sx_args": args, "timeout_s": 40}
	for k, x := range c03nsExtraScenario {
		sc[k] = x
	}
	if c.OneCPU {
		sc["cpu_list"] = "0"
	}
	raw, _ := json.Marshal(sc)
	f, err := os.CreateTemp(c08WorkDir(), "c03ns-*.json")
	if err != nil {
		return nil, nil, err
	}
	defer os.Remove(f.Name())
	f.Write(raw)
	f.Close()
	ctx, cancel := context.WithTimeout(context.Background(), 100*time.Second)
	defer cancel()
	cmd := exec.CommandContext(ctx, "unshare", "-n", tool, f.Name())
	cmd.WaitDelay = 2 * time.Second
	out, err := cmd.Output()
	if err != nil && len(out) == 0 {
		return nil, nil, fmt.Errorf("unshare -n nsrun: %v", err)
	}
	var rep c17Report
	if err := json.Unmarshal(out, &rep); err != nil {
		return nil, nil, fmt.Errorf("nsrun output: %v", err)
	}
	if rep.SetupError != "" {
		return nil, nil, fmt.Errorf("topology: %s", rep.SetupError)
	}
	return &rep, args, nil
}

func c03nsJudge(c c03nsCase, rep *c17Report) (error, int, int) {
	kind := scanKind(c.Cmd)
	p, _ := gram.RefIPv4Target(c03nsSubnet(c))
	s := shape.Scan{Kind: kind, Ethernet: !c.Tun, Subnet: &p, Ports: c.Ports, AllPorts: c.Ports}
	if kind == "icmp" || kind == "udp" || kind == "arp" {
		s.Ports, s.AllPorts = nil, nil
	}
	must, may := map[string]int{}, map[string]int{}
	nmust := 0
	naddr := int(p.Size())
	chunkOf := func(at int) int { // which chunk's socket is open when the at-th probe is written
		acc := 0
		for ci := 0; ci*200 < len(c.Ports); ci++ {
			np := 0
			for _, r := range chunkRanges(c.Ports, ci) {
				np += int(r.End-r.Start) + 1
			}
			acc += np * naddr
			if at <= acc {
				return ci
			}
		}
		return 0
	}
	for _, e := range c.Events {
		if len(c.Ports) > 200 && s.Ports != nil {
			s.Ports = chunkRanges(c.Ports, chunkOf(e.AtWrite))
		}
		v, key := shape.Classify(s, e.Frame)
		switch v {
		case shape.Yes:
			must[key]++
			nmust++
		case shape.DontCare:
			if key != "" {
				may[key]++
			}
		}
	}
	got := map[string]int{}
	for _, l := range strings.Split(strings.TrimSuffix(rep.Stdout, "\n"), "\n") {
		if l == "" {
			continue
		}
		k, err := recordKey(kind, l)
		if err != nil {
			return err, nmust, 0
		}
		got[k]++
	}
	var miss, extra []string
	for k, n := range must {
		if got[k] < n {
			miss = append(miss, fmt.Sprintf("%s x%d", k, n-got[k]))
		}
	}
	for k, n := range got {
		if n > must[k]+may[k] {
			extra = append(extra, fmt.Sprintf("%s x%d", k, n-must[k]-may[k]))
		}
	}
	if len(miss)+len(extra) > 0 {
		sort.Strings(miss)
		sort.Strings(extra)
		return fmt.Errorf("reply-shaped frames not reported: %v; records without a reply-shaped frame: %v", clipList(miss, 4), clipList(extra, 4)), nmust, len(c.Events) - nmust
	}
	return nil, nmust, len(c.Events) - nmust
}

// set while c03nsCheck re-runs a case to see whether a capture difference repeats (one case at a time per process)
var c03nsRetrying bool

func c03nsCheck(c c03nsCase) *kit.Verdict {
	v := &kit.Verdict{Units: len(c.Events)}
	v.Label("scan=%s", scanKind(c.Cmd))
	v.Label("link=%s", map[bool]string{false: "veth", true: "tun"}[c.Tun])
	jw := startJitterWatch()
	rep, args, err := c03nsRun(c, c03nsExitMs)
	lateness := jw.Stop()
	if err != nil {
		fmt.Fprintln(os.Stderr, "C03 netns infrastructure problem:", err)
		return &kit.Verdict{Inconclusive: true}
	}
	line := "sx " + strings.Join(args, " ")
	if rep.TimedOut || rep.Exit != 0 {
		return v.Failf("%s: exit=%d timed out=%v\nstderr: %s", line, rep.Exit, rep.TimedOut, clipN(rep.Stderr, 400))
	}
	// C01 / C05 on the real adapter: the probes captured on the wire are exactly the specification, from the requested source
	{
		base := strings.Fields(c.Cmd)[0]
		subnet := c03nsSubnet(c)
		spec := gram.Spec{CIDR: subnet, Ports: c.Ports}
		want, _ := spec.Denote(cmdPortless(base))
		got := map[gram.Probe]int{}
		p, _ := gram.RefIPv4Target(subnet)
		for _, f := range rep.Frames {
			b, err := hex.DecodeString(f.Hex)
			if err != nil || (f.Link && len(b) >= 14 && b[12] == 0x86 && b[13] == 0xdd) {
				continue
			}
			d := wire.Decode(b, f.Link)
			switch {
			case base == "arp" && d.ARP != nil && d.ARP.Op == 1 && len(d.ARP.TPA) == 4:
				if wire.MACString(d.ARP.SHA) == c03nsMAC && wire.IPString([4]byte{d.ARP.SPA[0], d.ARP.SPA[1], d.ARP.SPA[2], d.ARP.SPA[3]}) == c01SrcIP {
					got[gram.Probe{IP: gram.BytesU32(d.ARP.TPA)}]++
				}
			case len(d.IPs) > 0 && p.Contains(gram.BytesU32(d.IPs[0].Dst[:])) && wire.IPString(d.IPs[0].Src) == c01SrcIP:
				switch {
				case base == "icmp" && d.ICMP != nil:
					got[gram.Probe{IP: gram.BytesU32(d.IPs[0].Dst[:])}]++
				case base == "udp" && d.UDP != nil:
					got[gram.Probe{IP: gram.BytesU32(d.IPs[0].Dst[:]), Port: d.UDP.DstPort}]++
				case base == "tcp" && d.TCP != nil:
					got[gram.Probe{IP: gram.BytesU32(d.IPs[0].Dst[:]), Port: d.TCP.DstPort}]++
				}
			}
		}
		if diff := gram.DiffProbes(want, got); diff != "" {
			if !c03nsRetrying {
				// a capture artefact (frames dropped between the device and this process on a saturated machine) does not
				// repeat; whatever sx does wrong here it does every time
				c03nsRetrying = true
				defer func() { c03nsRetrying = false }()
				for try := 0; try < 2; try++ {
					if again := c03nsCheck(c); again.Err == nil {
						return &kit.Verdict{Inconclusive: true}
					}
				}
			}
			return v.Failf("%s\nprobes captured on the real interface differ from the specification (C01): %s", line, diff)
		}
	}
	if rep.WallMs < c03nsExitMs {
		return v.Failf("%s\nthe process ran for %d ms only; the exit delay is %d ms (C16: no exit before the delay has elapsed)", line, rep.WallMs, c03nsExitMs)
	}
	if rep.Injected != len(c.Events) {
		// a reaction was keyed to a probe that never came, or a send failed: nothing to judge
		return &kit.Verdict{Inconclusive: true}
	}
	jerr, must, other := c03nsJudge(c, rep)
	if jerr != nil {
		// scheduling / ring-buffer latency against a 400 ms exit delay: decide with a long one
		rep2, _, err2 := c03nsRun(c, 3000)
		if err2 != nil || rep2.Injected != len(c.Events) || rep2.Exit != 0 {
			return &kit.Verdict{Inconclusive: true}
		}
		if jerr2, _, _ := c03nsJudge(c, rep2); jerr2 == nil {
			if c.Late && lateness < 40*time.Millisecond {
				// a lost late reply must be reproducible: a single miss can be a scheduling accident of the sx process
				for try := 0; try < 2; try++ {
					rep3, _, err3 := c03nsRun(c, c03nsExitMs)
					if err3 != nil || rep3.Exit != 0 || rep3.Injected != len(c.Events) {
						return &kit.Verdict{Inconclusive: true}
					}
					if e3, _, _ := c03nsJudge(c, rep3); e3 == nil {
						return &kit.Verdict{Inconclusive: true}
					}
				}
				return v.Failf("%s\nwith --exit-delay %dms: %v\n(the same traffic is reported correctly with a 3 s exit delay: replies inside the exit delay are lost)", line, c03nsExitMs, jerr)
			}
			return &kit.Verdict{Inconclusive: true}
		} else {
			return v.Failf("%s\n%v\n(%d frames injected on the real interface, %d must be reported)\nstdout: %s", line, jerr2, len(c.Events), must, clipN(rep2.Stdout, 400))
		}
	}
	v.NonTrivial = must >= 1 && other >= 1
	return v
}

func TestC03Netns(t *testing.T) {
	kit.Run(t, kit.Spec[c03nsCase]{
		Prop: "C03",
		Rule: "the REAL sx binary in a fresh network namespace (kernel BPF, real AF_PACKET adapter, TPACKET ring): arp / icmp / udp / tcp syn / tcp fin / tcp --flags over a /28../30 (1..3 port ranges, sometimes 201..230 ranges = several sockets and kernel filters) attached to a veth (Ethernet) or a tun device (raw IP), a quarter of the runs with the scanner pinned to one CPU (taskset: a one-vCPU host), 1..20 frames (for tcp scans in half of the cases also a reply with 40 bytes of IP options and 40 bytes of TCP options) injected on the far end of the veth / written into the tun as reactions to the k-th probe: reply-shaped frames and near misses exactly as in TestC03Detection (subnet edges, port edges, flag sets, options, ICMP types, foreign protocols; VLAN-tagged frames are not generated here because the kernel strips the tag before packet sockets see the frame). Oracle: stdout records = one per frame that shape.Classify calls reply-shaped (multiset); a miss is re-decided with a 3 s exit delay (and counts as a violation when a reply to the last probe, inside the 400 ms exit delay, is only reported with the long delay - unless a scheduler-lateness monitor saw the machine stall for 40 ms or more during the run: then the case is discarded); the process must not run shorter than the exit delay. non-trivial: >=1 reply-shaped and >=1 other frame; distinct by case",
		Gen: func(t *rapid.T) c03nsCase {
			c := c03nsCase{Cmd: rapid.SampledFrom([]string{"arp", "icmp", "udp", "tcp", "tcp syn", "tcp fin", "tcp --flags fin,ack"}).Draw(t, "cmd"), Bits: rapid.SampledFrom([]int{28, 29, 30}).Draw(t, "bits")}
			base := strings.Fields(c.Cmd)[0]
			if base != "arp" {
				c.Tun = rapid.Bool().Draw(t, "tun")
			}
			if !cmdPortless(base) {
				nr := rapid.IntRange(1, 3).Draw(t, "nranges")
				if rapid.IntRange(0, 5).Draw(t, "chunked") == 0 {
					// more than 200 ranges: one socket and one kernel filter per chunk
					nr, c.Bits = rapid.IntRange(201, 230).Draw(t, "manyranges"), 30
				}
				for i := 0; i < nr; i++ {
					st := uint16(kit.UniformInt64(t, "pstart", 1, 65000))
					w := 0
					if nr <= 3 {
						w = rapid.IntRange(0, 2).Draw(t, "w")
					}
					c.Ports = append(c.Ports, gram.PortRange{Start: st, End: st + uint16(w)})
				}
			}
			// reuse the traffic generator of the virtual-wire check
			subnet := c03nsSubnet(c)
			vc := c03Case{Cmd: c.Cmd, VPN: c.Tun, Spec: gram.Spec{CIDR: subnet, Ports: c.Ports}}
			want, _ := vc.Spec.Denote(cmdPortless(base))
			seen := map[uint32]bool{}
			var targets []uint32
			for p := range want {
				if !seen[p.IP] {
					seen[p.IP] = true
					targets = append(targets, p.IP)
				}
			}
			sort.Slice(targets, func(i, j int) bool { return targets[i] < targets[j] })
			c03GenEvents(t, &vc, gram.Total(want), targets)
			total := gram.Total(want)
			if rapid.Bool().Draw(t, "late") && len(vc.Events) > 0 {
				// a reply to the very last probe: it arrives inside the exit delay and must still be reported (C16)
				vc.Events[0].AtWrite = total
				c.Late = true
			}
			c.OneCPU = rapid.IntRange(0, 3).Draw(t, "one-cpu") == 0
			if strings.HasPrefix(c.Cmd, "tcp") && len(targets) > 0 && len(c.Ports) > 0 && rapid.Bool().Draw(t, "max-headers") {
				// a reply with the longest headers there are (40 bytes of IP options, 40 bytes of TCP options, Ethernet mode:
				// 134 bytes before the first byte of data): only the real kernel honours the capture length a filter returns
				s4, d4 := gram.U32Bytes(targets[0]), [4]byte{10, 250, 0, 1}
				fl := uint16(wire.RST | wire.ACK)
				if scanKind(c.Cmd) == "tcpsyn" {
					fl = wire.SYN | wire.ACK
				}
				nop := bytes.Repeat([]byte{1}, 40)
				body := wire.IPv4{ID: 77, Flags: 2, TTL: 61, Proto: wire.ProtoTCP, Src: s4, Dst: d4, Options: nop}.Bytes(
					wire.TCP{SrcPort: c.Ports[0].Start, DstPort: 40000, Flags: fl, Window: 100, Options: nop}.Bytes(s4, d4, []byte("data behind the longest headers")))
				fr := body
				if !c.Tun {
					fr = append(wire.Eth{Dst: [6]byte{2, 0, 0, 0, 0, 1}, Src: [6]byte{2, 5, 5, 5, 5, 5}, Type: wire.EtherIPv4}.Bytes(), body...)
				}
				vc.Events = append(vc.Events, c03Event{AtWrite: 1, Frame: fr, Note: "max-headers"})
			}
			for _, e := range vc.Events {
				if strings.HasPrefix(e.Note, "vlan") {
					// the kernel strips 802.1Q tags before packet sockets see the frame (the tag travels in the ring's
					// metadata): on real sockets a tagged frame is indistinguishable from an untagged one. Not generated here.
					continue
				}
				if e.AtWrite < 1 {
					e.AtWrite = 1
				}
				if len(c.Events) < 20 {
					c.Events = append(c.Events, e)
				}
			}
			return c
		},
		Check: c03nsCheck,
	})
}

// A long, quiet scan (nothing matches the filter for seconds) and then one reply to the last probe, inside the exit delay.
func TestC03NetnsQuiet(t *testing.T) {
	kit.Run(t, kit.Spec[c03nsCase]{
		Prop: "C03",
		Rule: "real binary in a namespace, icmp or arp over a /27 at --rate 11..13/s (about 2.6 s of sending during which no frame matches the filter), then ONE reply-shaped frame as reaction to the last probe, inside the 400 ms exit delay. Oracle: that reply is reported (a receiver that has gone to sleep on a quiet wire loses it); probes = specification; the process does not run shorter than the delay. non-trivial: always; distinct by case",
		Gen: func(t *rapid.T) c03nsCase {
			c := c03nsCase{Cmd: rapid.SampledFrom([]string{"icmp", "arp", "icmp"}).Draw(t, "cmd"), Bits: 27, Late: true, Rate: fmt.Sprintf("%d/s", rapid.IntRange(11, 13).Draw(t, "rate"))}
			if c.Cmd == "icmp" {
				c.Tun = rapid.Bool().Draw(t, "tun")
			}
			src := uint32(192<<24|168<<16|50<<8) + 32 + uint32(rapid.IntRange(0, 31).Draw(t, "src"))
			if c.Tun {
				src = uint32(10<<24|8<<16) + 32 + uint32(rapid.IntRange(0, 31).Draw(t, "src2"))
			}
			kind := scanKind(c.Cmd)
			c.Events = []c03Event{{AtWrite: 32, Frame: c16Reply(kind, !c.Tun, src, 0), Note: "late reply after a quiet scan"}}
			return c
		},
		Check: func(c c03nsCase) *kit.Verdict {
			v := c03nsCheck(c)
			if v.Err == nil && !v.Inconclusive {
				v.NonTrivial = true
			}
			return v
		},
	})
}

// ---------------------------------------------------------------- C16 on real sockets: replies late in the exit delay
//
// The reply to the last probe arrives t ms after that probe left, t inside the configured exit delay - also near its end.
// On a real AF_PACKET socket the frame has to travel through the kernel's packet ring before the scan may stop listening.

type c16nsCase struct {
	Cmd     string `json:"command"`
	Tun     bool   `json:"through_tun_device"`
	ExitMs  int    `json:"exit_delay_ms"`
	ReplyMs int    `json:"reply_arrives_ms_after_last_probe"`
	Rate    string `json:"rate,omitempty"` // stretches the scan: the receiver has been idle for a second when the reply comes
}

func c16nsOnce(c c16nsCase) (reported bool, rep *c17Report, args []string, err error) {
	kind := scanKind(c.Cmd)
	cc := c03nsCase{Cmd: c.Cmd, Tun: c.Tun, Bits: 30, Rate: c.Rate}
	if kind != "arp" && kind != "icmp" && kind != "udp" {
		cc.Ports = []gram.PortRange{{Start: 443, End: 443}}
	}
	if kind == "udp" {
		cc.Ports = []gram.PortRange{{Start: 53, End: 53}}
	}
	p, _ := gram.RefIPv4Target(c03nsSubnet(cc))
	src := p.Base + 1
	fr := c16Reply(kind, !c.Tun, src, 443)
	cc.Events = []c03Event{{AtWrite: int(p.Size()), Frame: fr, DelayMs: c.ReplyMs}}
	rep, args, err = c03nsRun(cc, c.ExitMs)
	if err != nil {
		return false, nil, args, err
	}
	sc := shape.Scan{Kind: kind, Ethernet: !c.Tun, Subnet: &p, Ports: cc.Ports, AllPorts: cc.Ports}
	if kind == "icmp" || kind == "udp" || kind == "arp" {
		sc.Ports, sc.AllPorts = nil, nil
	}
	verdict, key := shape.Classify(sc, fr)
	if verdict != shape.Yes {
		return false, rep, args, fmt.Errorf("harness: the late reply is not reply-shaped (%s)", key)
	}
	for _, l := range strings.Split(strings.TrimSuffix(rep.Stdout, "\n"), "\n") {
		if l == "" {
			continue
		}
		if k, e := recordKey(kind, l); e == nil && k == key {
			return true, rep, args, nil
		}
	}
	return false, rep, args, nil
}

func c16nsCheck(c c16nsCase) *kit.Verdict {
	v := &kit.Verdict{Units: 1}
	v.Label("scan=%s", scanKind(c.Cmd))
	v.Label("reply-at=%s", map[bool]string{true: "near-the-end", false: "early-or-middle"}[c.ExitMs-c.ReplyMs <= 60])
	misses, runs, calm := 0, 0, 0
	var line string
	for try := 0; try < 6; try++ {
		jw := startJitterWatch()
		ok, rep, args, err := c16nsOnce(c)
		late := jw.Stop()
		if err != nil {
			if strings.HasPrefix(err.Error(), "harness:") {
				return v.Failf("%v", err)
			}
			fmt.Fprintln(os.Stderr, "C16 netns infrastructure problem:", err)
			return &kit.Verdict{Inconclusive: true}
		}
		line = "sx " + strings.Join(args, " ")
		if rep.TimedOut || rep.Exit != 0 {
			return v.Failf("%s: exit=%d timed out=%v\nstderr: %s", line, rep.Exit, rep.TimedOut, clipN(rep.Stderr, 400))
		}
		if rep.Injected != 1 {
			return &kit.Verdict{Inconclusive: true}
		}
		if rep.WallMs < int64(c.ExitMs) {
			return v.Failf("%s\nthe process ran for %d ms only; the exit delay is %d ms", line, rep.WallMs, c.ExitMs)
		}
		runs++
		if late < 15*time.Millisecond {
			calm++
			if !ok {
				misses++
			}
		}
		if ok && try == 0 {
			v.NonTrivial = c.ReplyMs > 0
			return v
		}
		if try >= 2 && misses == 0 {
			break
		}
	}
	// a single miss can be a scheduling accident; a reply that is lost again and again on a calm machine is not
	if calm >= 4 && misses >= 3 {
		return v.Failf("%s\nthe reply to the last probe arrived %d ms after that probe left - inside the exit delay of %d ms, %d ms before its end - and was not reported in %d of %d runs on a calm machine (scheduler lateness < 15 ms)",
			line, c.ReplyMs, c.ExitMs, c.ExitMs-c.ReplyMs, misses, calm)
	}
	return &kit.Verdict{Inconclusive: true}
}

func TestC16NetnsLate(t *testing.T) {
	kit.Run(t, kit.Spec[c16nsCase]{
		Prop: "C16",
		Rule: "the REAL sx binary in a network namespace (real AF_PACKET socket and ring): arp / icmp / udp / tcp syn / tcp fin over a /30 on a veth or tun device with --exit-delay 150 / 300 / 600 ms (one case in five 3 s), a third of the scans stretched to about a second by --rate 3/s (the receiver has seen nothing for a while); the reply to the last probe is put on the wire t ms after that probe was seen, t = 0, half the delay, or 50 ms before its end. Oracle: the reply is reported and the process does not end before the delay; a miss is re-run five times and counts as a violation when the reply is lost in >= 3 runs during which a scheduler-lateness monitor saw < 15 ms (otherwise the case is discarded). non-trivial: t > 0; distinct by case",
		Gen: func(t *rapid.T) c16nsCase {
			c := c16nsCase{Cmd: rapid.SampledFrom([]string{"arp", "icmp", "udp", "tcp syn", "tcp fin"}).Draw(t, "cmd"), ExitMs: rapid.SampledFrom([]int{150, 300, 600}).Draw(t, "exit")}
			if kit.Uniform(t, "long-delay", 5) == 3 {
				// a delay of seconds on a silent link: the receiver has seen nothing but poll timeouts for a long time when
				// the reply finally comes
				c.ExitMs = 3000
			}
			c.Tun = c.Cmd != "arp" && rapid.Bool().Draw(t, "tun")
			before := kit.EnvInt("C16_BEFORE_END_MS", 50)
			c.ReplyMs = rapid.SampledFrom([]int{0, c.ExitMs / 2, c.ExitMs - before, c.ExitMs - before}).Draw(t, "reply-at")
			c.Rate = rapid.SampledFrom([]string{"", "", "3/s"}).Draw(t, "rate")
			return c
		},
		Check: c16nsCheck,
	})
}

// ---------------------------------------------------------------- C01 on real sockets
//
// The same harness without injected traffic, filed under C01: the probes captured on the far end of the veth pair (or read
// from the tun device) are exactly the specification - on hosts with many CPUs and on a host with one.
func TestC01Netns(t *testing.T) {
	kit.Run(t, kit.Spec[c03nsCase]{
		Prop: "C01",
		Rule: "the REAL sx binary in a network namespace: arp / icmp / udp / tcp syn / tcp fin over a /27../30 (clear of the interface's own address) with 1..3 port ranges or 201..230 ranges (several chunks), veth or tun, half of the runs with the scanner pinned to one CPU (taskset -c 0: worker pools derived from the CPU count), optionally rate-limited; no traffic injected. Oracle: the multiset of probes captured on the wire = the denotation of the specification (a difference must repeat in three runs). non-trivial: always; distinct by case",
		Gen: func(t *rapid.T) c03nsCase {
			c := c03nsCase{Cmd: rapid.SampledFrom([]string{"arp", "icmp", "udp", "tcp syn", "tcp fin"}).Draw(t, "cmd"), Bits: rapid.IntRange(27, 30).Draw(t, "bits")}
			c.Tun = c.Cmd != "arp" && rapid.Bool().Draw(t, "tun")
			if strings.HasPrefix(c.Cmd, "tcp") || c.Cmd == "udp" {
				n := rapid.SampledFrom([]int{1, 2, 3, 201, 230}).Draw(t, "nranges")
				if n > 3 {
					c.Bits = 30
				}
				start := rapid.IntRange(1, 60000).Draw(t, "p0")
				for i := 0; i < n; i++ {
					c.Ports = append(c.Ports, gram.PortRange{Start: uint16(start + 3*i), End: uint16(start + 3*i + i%2)})
				}
			}
			c.OneCPU = rapid.Bool().Draw(t, "one-cpu")
			c.Rate = rapid.SampledFrom([]string{"", "", "2000/s"}).Draw(t, "rate")
			return c
		},
		Check: func(c c03nsCase) *kit.Verdict {
			v := c03nsCheck(c)
			for try := 0; try < 2 && v.Err != nil; try++ {
				// whatever sx does wrong here it does every time: a difference that does not repeat is an artefact of the
				// capture on a saturated machine (seen once: a whole run's frames missing, not reproducible)
				if again := c03nsCheck(c); again.Err == nil {
					return &kit.Verdict{Inconclusive: true}
				}
			}
			if v.Err == nil && !v.Inconclusive {
				v.NonTrivial = true
				if c.OneCPU {
					v.Label("one-cpu")
				}
			}
			return v
		},
	})
}
