//go:build verif

package command

import (
	"context"
	"errors"
	"fmt"
	"io"
	"math/rand"
	"net"
	"strings"
	"sync"
	"testing"
	"time"

	kit "verifkit"
	"verifkit/gram"
	"verifkit/vwire"
	"verifkit/wire"

	"github.com/v-byte-cpu/sx/pkg/scan"
	"pgregory.net/rapid"
)

// C19: live mode - complete passes repeat until cancelled.

type c19Case struct {
	CIDR       string   `json:"cidr"` // real delegate: ipRequestGenerator (+ exclusion filter) over this subnet; "" => scripted delegate
	Exclude    []string `json:"exclude,omitempty"`
	PassSizes  []int    `json:"scripted_pass_sizes,omitempty"`     // scripted delegate: size of pass k (cyclic)
	FailPass   int      `json:"scripted_pass_that_fails_to_start"` // 0: none; k: the k-th GenerateRequests call returns an error
	FailOn     bool     `json:"and_every_later_pass_fails_too"`
	LongFail   bool     `json:"failures_watched_for_seconds,omitempty"` // hundreds of consecutive failed starts: still no busy loop
	IntervalMs int      `json:"rescan_interval_ms"`
	ReadLagUs  int      `json:"consumer_lag_us_per_request"` // a slow consumer stretches the pass
	CancelPass int      `json:"cancel_in_pass"`              // cancel while pass number CancelPass (>=3) is under way, or ...
	CancelAt   int      `json:"cancel_after_items_of_that_pass"`
	CancelWait bool     `json:"cancel_during_the_wait_after_that_pass"`
	Seed       int64    `json:"rand_seed"`
}

// c19Delegate wraps a request generator and records when each pass starts (GenerateRequests called) and ends
// (its channel is drained and closed). It forwards through an unbuffered channel, so "ended" happens-before the live
// generator can notice the end of the pass.
type c19Delegate struct {
	inner    scan.RequestGenerator
	failCall int
	failOn   bool
	mu       sync.Mutex
	calls    []time.Time
	ends     []time.Time
}

func (d *c19Delegate) GenerateRequests(ctx context.Context, r *scan.Range) (<-chan *scan.Request, error) {
	d.mu.Lock()
	d.calls = append(d.calls, time.Now())
	n := len(d.calls)
	d.mu.Unlock()
	if n == d.failCall || (d.failOn && d.failCall > 0 && n > d.failCall) {
		return nil, errors.New("pass fails to start")
	}
	in, err := d.inner.GenerateRequests(ctx, r)
	if err != nil {
		return nil, err
	}
	out := make(chan *scan.Request)
	go func() {
		defer func() {
			d.mu.Lock()
			d.ends = append(d.ends, time.Now())
			d.mu.Unlock()
			close(out)
		}()
		for q := range in {
			select {
			case out <- q:
			case <-ctx.Done():
				return
			}
		}
	}()
	return out, nil
}

type c19Scripted struct {
	sizes []int
	mu    sync.Mutex
	pass  int
}

func (g *c19Scripted) GenerateRequests(ctx context.Context, r *scan.Range) (<-chan *scan.Request, error) {
	g.mu.Lock()
	k := g.pass
	g.pass++
	g.mu.Unlock()
	n := g.sizes[k%len(g.sizes)]
	out := make(chan *scan.Request, 7)
	go func() {
		defer close(out)
		for i := 0; i < n; i++ {
			select {
			case out <- &scan.Request{DstIP: net.IP{10, byte(k), byte(i >> 8), byte(i)}, DstPort: uint16(k)}:
			case <-ctx.Done():
				return
			}
		}
	}()
	return out, nil
}

func c19Check(c c19Case) *kit.Verdict {
	v := &kit.Verdict{}
	interval := time.Duration(c.IntervalMs) * time.Millisecond
	var inner scan.RequestGenerator
	var subnet gram.Prefix
	var excl []gram.Prefix
	passSize := func(k int) int { return 0 }
	if c.CIDR != "" {
		v.Label("delegate=real-ip-generator")
		p, ok := gram.RefIPv4Target(c.CIDR)
		if !ok {
			return v.Failf("harness: cidr")
		}
		subnet = p
		inner = scan.NewIPRequestGenerator(scan.NewIPGenerator())
		if len(c.Exclude) > 0 {
			v.Label("exclude")
			ex, err := parseExcludeFile(func() (io.ReadCloser, error) {
				return io.NopCloser(strings.NewReader(strings.Join(c.Exclude, "\n") + "\n")), nil
			})
			if err != nil {
				return v.Failf("harness: exclusion: %v", err)
			}
			inner = scan.NewFilterIPRequestGenerator(inner, ex)
			for _, l := range c.Exclude {
				q, _ := gram.RefIPv4Target(l)
				excl = append(excl, q)
			}
		}
		n := 0
		for i := uint64(0); i < p.Size(); i++ {
			if !gram.Excluded(excl, p.Base+uint32(i)) {
				n++
			}
		}
		passSize = func(int) int { return n }
	} else {
		v.Label("delegate=scripted")
		inner = &c19Scripted{sizes: c.PassSizes}
		passSize = func(k int) int { return c.PassSizes[k%len(c.PassSizes)] }
	}
	if c.FailPass > 0 {
		v.Label("failing-pass")
	}
	if c.ReadLagUs > 0 {
		v.Label("slow-consumer")
	}
	del := &c19Delegate{inner: inner, failCall: c.FailPass, failOn: c.FailOn}
	live := scan.NewLiveRequestGenerator(del, interval)
	_, ipnet, _ := net.ParseCIDR("10.0.0.0/30")
	if c.CIDR != "" {
		_, ipnet, _ = net.ParseCIDR(c.CIDR)
	}
	rand.Seed(c.Seed)
	ctx, cancel := context.WithCancel(context.Background())
	defer cancel()
	start := time.Now()
	out, err := live.GenerateRequests(ctx, &scan.Range{DstSubnet: ipnet, SrcIP: net.IP{10, 250, 0, 1}})
	if err != nil {
		if c.FailPass == 1 {
			return v // the very first pass failing is reported to the caller: nothing to observe
		}
		return v.Failf("live generator refused to start: %v", err)
	}
	// consume: split into passes by the reference pass sizes
	pass, inPass := 1, 0
	seen := map[uint32]int{}
	cancelled := false
	var cancelTime time.Time
	doCancel := func() {
		cancelled = true
		cancelTime = time.Now()
		cancel()
	}
	hard := time.After(60 * time.Second)
	total := 0
	closed := false
	finishPass := func() *kit.Verdict {
		if c.CIDR != "" {
			for i := uint64(0); i < subnet.Size(); i++ {
				a := subnet.Base + uint32(i)
				want := 1
				if gram.Excluded(excl, a) {
					want = 0
				}
				if seen[a] != want {
					return v.Failf("pass %d: address %s was requested %d times, expected %d (each pass must cover the target exactly once)", pass, gram.U32String(a), seen[a], want)
				}
			}
			if len(seen) > int(subnet.Size()) {
				return v.Failf("pass %d: requests outside the subnet", pass)
			}
			seen = map[uint32]int{}
		}
		return nil
	}
	failedAt := 0 // pass index after which the stream is allowed to stall (failing pass)
	for !closed {
		// a pass that fails to start: the statement leaves open whether passes resume; the stream must not crash or spin
		if c.FailPass > 1 && pass == c.FailPass && inPass == 0 && failedAt == 0 && !cancelled {
			failedAt = pass
			// observe for a while: no busy loop of delegate calls
			obs := 6*interval + 30*time.Millisecond
			if c.LongFail && c.FailOn {
				obs = 2500 * time.Millisecond
			}
			t0 := time.Now()
			drained := 0
			tm := time.After(obs)
		watch:
			for {
				select {
				case _, ok := <-out:
					if !ok {
						closed = true
						break watch
					}
					drained++
				case <-tm:
					break watch
				}
			}
			del.mu.Lock()
			ncalls := len(del.calls)
			del.mu.Unlock()
			if maxCalls := c.FailPass + int(time.Since(t0)/interval) + 2; ncalls > maxCalls {
				return v.Failf("after pass %d failed to start the delegate was called %d times within %v (interval %v): busy loop", c.FailPass, ncalls, time.Since(t0), interval)
			}
			if closed {
				return v.Failf("a pass that failed to start ended live mode: the stream was closed without cancellation")
			}
			doCancel()
			continue
		}
		if !cancelled && pass == c.CancelPass && !c.CancelWait && inPass == c.CancelAt%max(passSize(pass-1), 1) {
			doCancel()
		}
		if !cancelled && pass > c.CancelPass+1 {
			return v.Failf("harness: cancellation point missed (pass %d)", pass)
		}
		select {
		case q, ok := <-out:
			if !ok {
				closed = true
				break
			}
			if cancelled {
				continue // requests that were already under way
			}
			total++
			if q.Err != nil {
				return v.Failf("pass %d: error request %v", pass, q.Err)
			}
			if c.CIDR != "" {
				ip4 := q.DstIP.To4()
				if ip4 == nil || !subnet.Contains(gram.BytesU32(ip4)) {
					return v.Failf("pass %d: request for %v outside %s", pass, q.DstIP, c.CIDR)
				}
				seen[gram.BytesU32(ip4)]++
			} else if int(q.DstPort) != pass-1 && !(c.FailPass > 0 && int(q.DstPort) >= pass-1) {
				return v.Failf("pass %d: request of scripted pass %d - passes are interleaved or incomplete", pass, q.DstPort+1)
			}
			inPass++
			if c.ReadLagUs > 0 {
				time.Sleep(time.Duration(c.ReadLagUs) * time.Microsecond)
			}
			if inPass == passSize(pass-1) {
				if bad := finishPass(); bad != nil {
					return bad
				}
				if pass == c.CancelPass && c.CancelWait {
					time.Sleep(interval / 3)
					doCancel()
				}
				pass++
				inPass = 0
			}
		case <-afterCancel(cancelled, cancelTime):
			return v.Failf("the stream did not end within 20s of the cancellation (pass %d, %d items in)", pass, inPass)
		case <-hard:
			return v.Failf("no request and no end of stream for 60s (pass %d, %d items in; cancelled=%v)", pass, inPass, cancelled)
		}
	}
	if !cancelled {
		return v.Failf("the stream ended after %d passes without being cancelled: live mode must keep going", pass-1)
	}
	if took := time.Since(cancelTime); took > 30*time.Second {
		return v.Failf("the stream ended only %v after cancellation", took)
	}
	// timing: pass k+1 starts no earlier than interval after pass k ended (delegate-side timestamps, one-sided)
	del.mu.Lock()
	defer del.mu.Unlock()
	gaps := 0
	for k := 0; k+1 < len(del.calls) && k < len(del.ends); k++ {
		if c.FailPass > 0 && k+1 >= c.FailPass-1 {
			break
		}
		gap := del.calls[k+1].Sub(del.ends[k])
		gaps++
		if gap < interval {
			return v.Failf("pass %d started %v after pass %d ended; the rescan interval is %v (pass %d lasted %v)", k+2, gap, k+1, interval, k+1, del.ends[k].Sub(del.calls[k]))
		}
	}
	completed := pass - 1
	if c.FailPass == 0 && completed < 2 && !(c.IntervalMs >= 10000 && gaps >= 1) {
		return v.Failf("harness: only %d complete passes observed", completed)
	}
	v.Units = total
	v.Label("passes=%s", bucket(completed, 0, 2, 3, 5))
	_ = start
	v.NonTrivial = (completed >= 2 || c.IntervalMs >= 10000) && gaps >= 1
	if c.IntervalMs >= 10000 {
		v.Label("interval-of-seconds")
	}
	return v
}

// afterCancel fires 20 s after the cancellation (never before it happened).
func afterCancel(cancelled bool, at time.Time) <-chan time.Time {
	if !cancelled {
		return nil
	}
	return time.After(time.Until(at.Add(20 * time.Second)))
}

func TestC19Live(t *testing.T) {
	kit.Run(t, kit.Spec[c19Case]{
		Prop: "C19",
		Rule: "scan.NewLiveRequestGenerator (rescan intervals 3..40 ms, about one case in 150 10.4..15 s with a single gap waited out) over (i) the real ipRequestGenerator (+ exclusion filter) for subnets /32../24 with any base, or (ii) a scripted delegate with drawn pass sizes (0..40, varying per pass) whose k-th pass (or every pass from the k-th on) may fail to start; rescan interval 3..40 ms; prompt or slow consumer (pass duration comparable to the interval); cancellation inside pass >=3 after a drawn number of items, or during the wait after it. Oracle: the stream splits into consecutive passes, each covering the (non-excluded) target exactly once; delegate-side timestamps: next pass is started >= interval after the previous one was drained (one-sided); passes keep coming until cancel; after cancel the stream ends (hard limit 30 s); a pass that fails to start causes neither a crash, nor the end of the stream, nor more delegate calls than elapsed/interval+2. non-trivial: >=2 complete passes and >=1 measured gap; distinct by case",
		Gen: func(t *rapid.T) c19Case {
			c := c19Case{Seed: rapid.Int64().Draw(t, "seed"), IntervalMs: rapid.SampledFrom([]int{3, 8, 20, 40}).Draw(t, "interval")}
			if rapid.Bool().Draw(t, "real") {
				bits := rapid.SampledFrom([]int{32, 31, 30, 29, 27, 24}).Draw(t, "bits")
				a := uint32(kit.UniformInt64(t, "base", 0, 1<<32-1))
				c.CIDR = fmt.Sprintf("%s/%d", gram.U32String(a), bits)
				if bits < 31 && rapid.IntRange(0, 2).Draw(t, "excl") == 0 {
					p, _ := gram.RefIPv4Target(c.CIDR)
					c.Exclude = []string{gram.U32String(p.Base + uint32(kit.Uniform(t, "exoff", int(p.Size()))))}
					if rapid.Bool().Draw(t, "exnet") {
						c.Exclude = append(c.Exclude, fmt.Sprintf("%s/31", gram.U32String(p.Base+2)))
					}
				}
			} else {
				n := rapid.IntRange(1, 4).Draw(t, "nsizes")
				for i := 0; i < n; i++ {
					c.PassSizes = append(c.PassSizes, rapid.SampledFrom([]int{1, 2, 8, 40}).Draw(t, "size"))
				}
				if rapid.IntRange(0, 2).Draw(t, "fail") == 0 {
					c.FailPass = rapid.IntRange(2, 4).Draw(t, "failpass")
					c.FailOn = rapid.Bool().Draw(t, "failon")
					if c.FailOn && rapid.IntRange(0, 2).Draw(t, "longfail") == 0 {
						// a delegate that keeps failing for seconds (hundreds of retries at a short interval)
						c.LongFail, c.IntervalMs = true, rapid.SampledFrom([]int{2, 3}).Draw(t, "long-interval")
					}
				}
			}
			if rapid.IntRange(0, 2).Draw(t, "lag") == 0 {
				c.ReadLagUs = rapid.SampledFrom([]int{200, 1500}).Draw(t, "lagus")
			}
			c.CancelPass = rapid.IntRange(3, 5).Draw(t, "cancelpass")
			c.CancelWait = rapid.Bool().Draw(t, "cancelwait")
			c.CancelAt = rapid.IntRange(0, 3).Draw(t, "cancelat")
			if c.FailPass == 0 && kit.Uniform(t, "long-interval", 150) == 149 {
				// a rescan interval of many seconds (what users configure); one gap is waited out, then the scan is cancelled
				c.IntervalMs = rapid.SampledFrom([]int{10400, 11000, 12500, 15000}).Draw(t, "seconds")
				// (cancelled after the first request of the second pass has been read)
				c.CIDR, c.Exclude, c.PassSizes = "", nil, []int{2, 2, 2}
				c.CancelPass, c.CancelWait, c.CancelAt, c.ReadLagUs = 2, false, 1, 0
			}
			return c
		},
		Check: c19Check,
	})
}

// ---------------------------------------------------------------- the arp --live command

type c19CmdCase struct {
	Bits       int   `json:"prefix_bits"`
	IntervalMs int   `json:"live_ms"`
	Passes     int   `json:"sigint_after_passes"`
	Extra      int   `json:"plus_frames"`
	Hosts      []int `json:"answering_host_offsets"`
	Exclude    bool  `json:"exclude_first_address"`
	Seed       int64 `json:"rand_seed"`
}

func c19CmdCheck(c c19CmdCase) *kit.Verdict {
	v := &kit.Verdict{}
	interval := time.Duration(c.IntervalMs) * time.Millisecond
	base := uint32(10<<24 | 66<<16)
	size := 1 << uint(32-c.Bits)
	n := size
	if c.Exclude {
		n--
	}
	stopAt := c.Passes*n + c.Extra
	answering := map[uint32]bool{}
	for _, h := range c.Hosts {
		if !(c.Exclude && h == 0) {
			answering[base+uint32(h%size)] = true
		}
	}
	var mu sync.Mutex
	writes := 0
	sc := vwire.Scenario{OnWrite: func(w *vwire.World, s *vwire.Socket, wr *vwire.Write) error {
		f := wire.Decode(wr.Frame, true)
		if f.ARP != nil && len(f.ARP.TPA) == 4 {
			t := gram.BytesU32(f.ARP.TPA)
			if answering[t] {
				ipb := gram.U32Bytes(t)
				mac := []byte{2, 7, ipb[0], ipb[1], ipb[2], ipb[3]}
				var src [6]byte
				copy(src[:], mac)
				s.Inject(append(wire.Eth{Dst: [6]byte{2, 0, 0, 0, 0, 1}, Src: src, Type: wire.EtherARP}.Bytes(),
					wire.ARP{HType: 1, PType: 0x0800, HLen: 6, PLen: 4, Op: 2, SHA: mac, SPA: ipb[:], THA: []byte{2, 0, 0, 0, 0, 1}, TPA: []byte{10, 250, 0, 1}}.Bytes()...))
			}
		}
		mu.Lock()
		writes++
		hit := writes == stopAt
		mu.Unlock()
		if hit {
			sendSIGINT()
		}
		return nil
	}}
	files := &cmdFiles{}
	defer files.cleanup()
	args := []string{"arp", "-i", "lo", "--srcip", c01SrcIP, "--srcmac", c01SrcMAC, "--json", "--live", interval.String(), "--exit-delay", "40ms"}
	if c.Exclude {
		args = append(args, "--exclude", files.write("exclude", gram.U32String(base)+"\n"))
	}
	args = append(args, fmt.Sprintf("%s/%d", gram.U32String(base), c.Bits))
	res := runCmd(cmdRun{Args: args, Seed: c.Seed, World: vwire.NewWorld(sc), Timeout: time.Duration(c.Passes+3)*interval + 60*time.Second})
	line := "sx " + strings.Join(args, " ")
	if res.Hung {
		return v.Failf("%s did not end after SIGINT (or never produced %d probes: live mode stopped early)\n%d probes written\n%s", line, stopAt, len(res.Writes), clipN(res.Goroutines, 2000))
	}
	if res.Err != nil {
		return v.Failf("%s: %v", line, res.Err)
	}
	v.Units = len(res.Writes)
	if len(res.Writes) < stopAt {
		return v.Failf("%s returned after %d probes without being interrupted (SIGINT was due after %d): live mode must keep scanning", line, len(res.Writes), stopAt)
	}
	// every address probed floor or ceil of (frames / n) times; pass i's first frame not before start + (i-1)*interval
	counts := map[uint32]int{}
	for i, w := range res.Writes {
		f := wire.Decode(w.Frame, true)
		if f.ARP == nil || len(f.ARP.TPA) != 4 {
			return v.Failf("%s: frame %x is not an ARP request", line, w.Frame)
		}
		t := gram.BytesU32(f.ARP.TPA)
		if t < base || t >= base+uint32(size) || (c.Exclude && t == base) {
			return v.Failf("%s: probe for %s, which is not a target", line, gram.U32String(t))
		}
		counts[t]++
		if i%n == 0 {
			k := i / n // pass index 0..
			if need := time.Duration(k) * interval; w.At.Sub(res.Started) < need {
				return v.Failf("%s\nthe first probe of pass %d left %v after the start; with --live %v it cannot leave before %v", line, k+1, w.At.Sub(res.Started), interval, need)
			}
		}
	}
	lo, hi := len(res.Writes)/n, (len(res.Writes)+n-1)/n
	for i := 0; i < size; i++ {
		a := base + uint32(i)
		if c.Exclude && i == 0 {
			continue
		}
		if counts[a] < lo || counts[a] > hi {
			return v.Failf("%s\n%d probes over %d targets, but %s was probed %d times (every pass must cover every target exactly once)", line, len(res.Writes), n, gram.U32String(a), counts[a])
		}
	}
	// de-duplication: each answering host printed exactly once
	printed := map[string]int{}
	for _, l := range strings.Split(strings.TrimSuffix(res.Stdout, "\n"), "\n") {
		if l == "" {
			continue
		}
		k, err := recordKey("arp", l)
		if err != nil {
			return v.Failf("%s: %v", line, err)
		}
		printed[strings.Split(k, "|")[1]]++
	}
	for a := range answering {
		if counts[a] >= 1 && printed[gram.U32String(a)] != 1 {
			return v.Failf("%s\nhost %s answered in each of %d passes and was printed %d times (live mode prints each host once)", line, gram.U32String(a), counts[a], printed[gram.U32String(a)])
		}
	}
	v.Label("passes=%d", c.Passes)
	v.NonTrivial = n >= 2 && c.Passes >= 2
	return v
}

func TestC19Command(t *testing.T) {
	kit.Run(t, kit.Spec[c19CmdCase]{
		Prop: "C19",
		Rule: "sx arp --live I (I = 15..60 ms) over /32../27 on the virtual wire, optionally --exclude of one address, some hosts answering every pass; SIGINT sent from the wire after passes*n + extra probes (2..5 passes). Oracle: the command keeps scanning until interrupted and then returns; every target is probed floor or ceil of frames/n times; the first probe of pass k leaves no earlier than start + (k-1)*I (one-sided); each answering host is printed exactly once. non-trivial: >=2 targets; distinct by case",
		Gen: func(t *rapid.T) c19CmdCase {
			c := c19CmdCase{Bits: rapid.SampledFrom([]int{32, 31, 30, 29, 27}).Draw(t, "bits"), IntervalMs: rapid.SampledFrom([]int{15, 30, 60}).Draw(t, "interval"),
				Passes: rapid.IntRange(2, 5).Draw(t, "passes"), Seed: rapid.Int64().Draw(t, "seed")}
			size := 1 << uint(32-c.Bits)
			c.Exclude = size > 1 && rapid.IntRange(0, 2).Draw(t, "exclude") == 0
			c.Extra = rapid.IntRange(0, size-1).Draw(t, "extra")
			if c.Extra == 0 {
				c.Extra = 1
			}
			for i := 0; i < rapid.IntRange(0, 3).Draw(t, "nhosts"); i++ {
				c.Hosts = append(c.Hosts, kit.Uniform(t, "host", size))
			}
			return c
		},
		Check: c19CmdCheck,
	})
}
