//go:build verif

package command

import (
	"net"
	"testing"

	"verifkit/gram"

	"github.com/v-byte-cpu/sx/pkg/ip"
)

// Native (coverage-guided) fuzz targets for the thorough tiers of C18 and C02. The semantic oracle is inside the
// target: the same reference-grammar differential as the rapid properties, on whatever strings the fuzzer invents.
// Seeds: valid renderings and the hostile constants that found the fixed defects.

func fuzzFail(t *testing.T, v interface{ Error() string }) {
	t.Fatalf("property violated: %v", v.Error())
}

func FuzzC18Ports(f *testing.F) {
	for _, s := range []string{"80", "1-65535", "22,80,443", "1-2-3", "0", "65536", "-1", "1,,2", " 80", "80-", "-80", "٣", "1-2,3-4,5", "00080", "+80", "8 0", "80\x00"} {
		f.Add(s, false)
		f.Add(s+"\n#c\n", true)
	}
	f.Fuzz(func(t *testing.T, s string, file bool) {
		c := c18Case{Parser: "ports", Input: s, Origin: "fuzz"}
		if file {
			c.Parser = "ports-file"
		}
		if v := c18CheckPorts(c); v.Err != nil {
			t.Fatalf("property C18 violated: %v", v.Err)
		}
	})
}

func FuzzC18Rate(f *testing.F) {
	for _, s := range []string{"1000/s", "500/7s", "5/.5s", "10", "0", "-1/s", "1/0s", "1/-1s", "1//s", "1/s/s", "5/1.5h", "1/µs", "99999999999/s", "1/1e3s", " 1/s", "1/ s", "+5/s", "5/1_000ms"} {
		f.Add(s)
	}
	f.Fuzz(func(t *testing.T, s string) {
		if v := c18CheckRate(c18Case{Parser: "rate", Input: s, Origin: "fuzz"}); v.Err != nil {
			t.Fatalf("property C18 violated: %v", v.Err)
		}
	})
}

func FuzzC18Flags(f *testing.F) {
	for _, s := range []string{"syn", "SYN,ack", "fin,psh,urg", "ns,cwr,ece", "", ",", "syn,", "syn ack", "sym", "df", "DF,mf", "evil", "df,df", "mf,evil,df", "Ｄf", "syn\x00"} {
		f.Add(s, true)
		f.Add(s, false)
	}
	f.Fuzz(func(t *testing.T, s string, tcp bool) {
		c := c18FlagsCase{Parser: "ip-flags", Input: s, Origin: "fuzz"}
		if tcp {
			c.Parser = "tcp-flags"
		}
		if v := c18CheckFlags(c); v.Err != nil {
			t.Fatalf("property C18 violated: %v", v.Err)
		}
	})
}

func FuzzC18Exclude(f *testing.F) {
	for _, s := range []string{"10.0.0.0/8\n", "192.168.0.1\n# c\n\n 10.1.2.3 \n", "::1\n", "::ffff:1.2.3.0/120\n10.0.0.1\n", "10.0.0.0/30\n10.0.0.0/24\n", "1.2.3.4 # x\n", "1.2.3\n", "1.2.3.4/33\n", "\x00\n", "1.2.3.4\r\n"} {
		f.Add(s, uint32(0x0a000001))
	}
	f.Fuzz(func(t *testing.T, s string, probe uint32) {
		if len(s) > 4096 {
			return
		}
		c := c18ExcludeCase{Content: s, Origin: "fuzz", Probe: []uint32{probe, probe ^ 1, probe + 1, 0x0a000000, 0x0a0000ff, 0x01020304}}
		if v := c18CheckExclude(c); v.Err != nil {
			t.Fatalf("property C18 violated: %v", v.Err)
		}
	})
}

// C02: a target string is either an IPv4 host/CIDR (accepted as exactly that prefix) or refused - and the address
// generator never walks outside what an accepted string denotes.
func FuzzC02Target(f *testing.F) {
	for _, s := range []string{"10.0.0.1", "10.0.0.0/24", "::1", "::/96", "::ffff:1.2.3.0/120", "::ffff:10.0.0.1", "2001:db8::/64", "1.2.3", "1.2.3.4/33", "1.2.3.4/-1", "256.1.1.1", "01.2.3.4", "1.2.3.4/032", "", " 1.2.3.4", "1.2.3.4%eth0", "fe80::1%lo", "1.2.3.4/", "/24", "٣.1.1.1"} {
		f.Add(s)
	}
	f.Fuzz(func(t *testing.T, s string) {
		ref, isV4 := gram.RefIPv4Target(s)
		n, err := ip.ParseIPNet(s)
		if !isV4 {
			if err == nil {
				t.Fatalf("property C02 violated: ParseIPNet(%q) accepted a non-IPv4 target as %v", clip(s), n)
			}
			return
		}
		if err != nil {
			t.Fatalf("property C02 violated: ParseIPNet(%q) refused a valid IPv4 target: %v", s, err)
		}
		ones, bits := n.Mask.Size()
		ip4 := n.IP.To4()
		if ip4 == nil || len(n.IP) != net.IPv4len || bits != 32 || ones != ref.Bits || gram.BytesU32(ip4) != ref.Base {
			t.Fatalf("property C02 violated: ParseIPNet(%q) = %v (ip %d bytes, mask %d/%d), reference %s/%d", s, n, len(n.IP), ones, bits, gram.U32String(ref.Base), ref.Bits)
		}
	})
}

func FuzzC18Payload(f *testing.F) {
	for _, s := range []string{`\x01\x02\x03`, "GET / HTTP/1.0\\r\\n\\r\\n", `\u0085`, `\U0001f600`, `\ufeffGET`, `\377`, `\400`, `\x`, `\`, `"`, `\"`, "a\nb", "\xff", "é", `\ud800`, `\U00110000`, `\x4`, `\18`, "\x00", `\'`} {
		f.Add(s)
	}
	f.Fuzz(func(t *testing.T, s string) {
		if v := c18CheckPayload(c18PayloadCase{Input: s, Origin: "fuzz"}); v.Err != nil {
			t.Fatalf("property C18 violated: %v", v.Err)
		}
	})
}
