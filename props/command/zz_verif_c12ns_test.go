//go:build verif

package command

import (
	"encoding/hex"
	"encoding/json"
	"fmt"
	"os"
	"regexp"
	"strings"
	"testing"

	kit "verifkit"
	"verifkit/gram"
	"verifkit/wire"

	"pgregory.net/rapid"
)

// C12 on the real process: Ctrl-C (SIGINT delivered to the sx binary inside a network namespace) after the k-th probe
// was seen on the wire, or after t milliseconds (before the first probe, inside the exit delay). Real signal handling,
// real AF_PACKET sockets (opened and closed per chunk), real rate limiter.

type c12nsCase struct {
	Cmd     string           `json:"command"`
	Tun     bool             `json:"through_tun_device"`
	Ports   []gram.PortRange `json:"ports,omitempty"`
	Bits    int              `json:"prefix_bits"`
	Rate    string           `json:"rate,omitempty"`
	AfterN  int              `json:"sigint_after_frames"` // 0: use AfterMs
	AfterMs int              `json:"sigint_after_ms"`
	Replies int              `json:"replies_injected"` // reply-shaped frames injected right after the first probes (records queued at cancel time)
	Live    bool             `json:"live"`
}

var c12nsCrash = regexp.MustCompile(`(?i)panic:|fatal error|SIGSEGV|send on closed channel|close of closed channel|all goroutines are asleep|unexpected signal|goroutine \d+ \[`)

func c12nsCheck(c c12nsCase) *kit.Verdict {
	v := &kit.Verdict{Units: 1}
	kind := scanKind(c.Cmd)
	v.Label("scan=%s", kind)
	cc := c03nsCase{Cmd: c.Cmd, Tun: c.Tun, Ports: c.Ports, Bits: c.Bits, Rate: c.Rate}
	subnet := c03nsSubnet(cc)
	p, _ := gram.RefIPv4Target(subnet)
	// replies from the first addresses of the subnet, injected after the first probe
	base := strings.Fields(c.Cmd)[0]
	for i := 0; i < c.Replies; i++ {
		src := gram.U32Bytes(p.Base + uint32(i)%uint32(p.Size()))
		var frame []byte
		switch base {
		case "arp":
			mac := [6]byte{2, 0, 0, 0, 1, byte(i + 1)}
			frame = append(wire.Eth{Dst: [6]byte{2, 0, 0, 0, 0, 1}, Src: mac, Type: 0x0806}.Bytes(),
				wire.ARP{HType: 1, PType: 0x0800, HLen: 6, PLen: 4, Op: 2, SHA: mac[:], SPA: src[:], THA: []byte{2, 0, 0, 0, 0, 1}, TPA: []byte{192, 168, 50, 2}}.Bytes()...)
		default:
			continue
		}
		cc.Events = append(cc.Events, c03Event{AtWrite: 1, Frame: frame})
	}
	rep, args, err := c12nsRun(cc, c)
	if err != nil {
		fmt.Fprintln(os.Stderr, "C12 netns infrastructure problem:", err)
		return &kit.Verdict{Inconclusive: true}
	}
	line := "sx " + strings.Join(args, " ")
	when := fmt.Sprintf("SIGINT after %d frames", c.AfterN)
	if c.AfterN == 0 {
		when = fmt.Sprintf("SIGINT after %d ms", c.AfterMs)
	}
	if c12nsCrash.MatchString(rep.Stderr) || rep.Exit == 2 || (rep.KilledBy != "" && rep.KilledBy != "interrupt") {
		return v.Failf("%s (%s): the process crashed: exit=%d killed_by=%q\nstderr: %s", line, when, rep.Exit, rep.KilledBy, clipN(rep.Stderr, 1500))
	}
	if rep.TimedOut {
		return v.Failf("%s (%s, sent at %d ms): the process was still running after 40 s\nstderr: %s", line, when, rep.SigintAtMs, clipN(rep.Stderr, 600))
	}
	if rep.SigintAtMs >= 0 {
		v.Label("interrupted")
		if rep.KilledBy == "interrupt" {
			// killed by the default action before the handler was installed (very early signal): nothing to judge
			v.Label("before-handler")
			return v
		}
		if d := rep.WallMs - rep.SigintAtMs; d > 6000 {
			return v.Failf("%s (%s): the process needed %d ms to end after the interrupt", line, when, d)
		}
		v.NonTrivial = true
	} else {
		v.Label("finished-before-interrupt")
	}
	// everything written is complete records
	if rep.Stdout != "" && !strings.HasSuffix(rep.Stdout, "\n") && !strings.HasSuffix(rep.Stdout, "(clipped)") {
		return v.Failf("%s (%s): stdout ends inside a record: %q", line, when, clipN(rep.Stdout, 300))
	}
	for _, l := range strings.Split(strings.TrimSuffix(rep.Stdout, "\n"), "\n") {
		if l == "" || strings.HasSuffix(l, "(clipped)") {
			continue
		}
		var obj map[string]interface{}
		if err := json.Unmarshal([]byte(l), &obj); err != nil {
			return v.Failf("%s (%s): stdout line is not a complete JSON record: %q", line, when, clipN(l, 300))
		}
	}
	// C01/C02 up to the cancel: nothing outside the specification, nothing twice (per pass)
	if !c.Live {
		spec := gram.Spec{CIDR: subnet, Ports: c.Ports}
		want, _ := spec.Denote(cmdPortless(base))
		got := map[gram.Probe]int{}
		for _, f := range rep.Frames {
			b, err := hex.DecodeString(f.Hex)
			if err != nil {
				continue
			}
			d := wire.Decode(b, f.Link)
			switch {
			case base == "arp" && d.ARP != nil && d.ARP.Op == 1 && len(d.ARP.TPA) == 4 && wire.MACString(d.ARP.SHA) == c03nsMAC:
				got[gram.Probe{IP: gram.BytesU32(d.ARP.TPA)}]++
			case len(d.IPs) > 0 && wire.IPString(d.IPs[0].Src) == c01SrcIP:
				switch {
				case base == "icmp" && d.ICMP != nil && d.ICMP.Type == 8:
					got[gram.Probe{IP: gram.BytesU32(d.IPs[0].Dst[:])}]++
				case base == "udp" && d.UDP != nil:
					got[gram.Probe{IP: gram.BytesU32(d.IPs[0].Dst[:]), Port: d.UDP.DstPort}]++
				case base == "tcp" && d.TCP != nil:
					got[gram.Probe{IP: gram.BytesU32(d.IPs[0].Dst[:]), Port: d.TCP.DstPort}]++
				}
			}
		}
		for pr, n := range got {
			if want[pr] < n {
				return v.Failf("%s (%s): probe %s:%d seen %d times on the wire, the specification has it %d times", line, when, gram.U32String(pr.IP), pr.Port, n, want[pr])
			}
		}
		if rep.SigintAtMs < 0 {
			if diff := gram.DiffProbes(want, got); diff != "" {
				return v.Failf("%s (never interrupted): probes differ from the specification: %s", line, diff)
			}
		}
	}
	return v
}

func c12nsRun(cc c03nsCase, c c12nsCase) (*c17Report, []string, error) {
	extra := map[string]interface{}{}
	if c.AfterN > 0 {
		extra["sigint_after_frames"] = c.AfterN
		extra["sigint_after_ms"] = 20000
	} else {
		extra["sigint_after_ms"] = c.AfterMs
		if c.AfterMs < 1 {
			extra["sigint_after_ms"] = 1 // 0 means "never" to nsrun
		}
	}
	c03nsExtra.Lock()
	defer c03nsExtra.Unlock()
	c03nsExtraScenario, c03nsExtraArgs = extra, nil
	if c.Live {
		c03nsExtraArgs = []string{"--live", "50ms"}
	}
	defer func() { c03nsExtraScenario, c03nsExtraArgs = nil, nil }()
	return c03nsRun(cc, 300)
}

func TestC12Netns(t *testing.T) {
	kit.Run(t, kit.Spec[c12nsCase]{
		Prop: "C12",
		Rule: "the REAL sx binary in a fresh network namespace, interrupted by a real SIGINT: arp (also --live) / icmp / udp / tcp syn / tcp fin over a /26../30 with 1..3 port ranges or 201..260 ranges (one socket per chunk), on a veth or a tun device, optionally rate-limited (so that the interrupt falls between probes), optionally with ARP replies queued; SIGINT after the k-th probe seen on the wire (k from 1 to beyond the end) or after t ms (0..600: before the first probe up to inside the 300 ms exit delay). Oracle: no crash (exit status 2, Go fault/panic text, death by a signal other than the interrupt itself), the process ends within 6 s of the interrupt (40 s overall), stdout consists of complete JSON lines, and no probe outside or above the multiplicity of the specification was seen. non-trivial: the interrupt arrived while the process was running; distinct by case",
		Gen: func(t *rapid.T) c12nsCase {
			c := c12nsCase{Cmd: rapid.SampledFrom([]string{"arp", "arp", "icmp", "udp", "tcp syn", "tcp fin"}).Draw(t, "cmd")}
			c.Bits = rapid.IntRange(26, 30).Draw(t, "bits")
			c.Tun = c.Cmd != "arp" && rapid.Bool().Draw(t, "tun")
			naddr := 1 << uint(32-c.Bits)
			total := naddr
			if strings.HasPrefix(c.Cmd, "tcp") || c.Cmd == "udp" {
				n := rapid.SampledFrom([]int{1, 2, 3, 201, 260}).Draw(t, "nranges")
				if n > 3 {
					c.Bits = 30
					naddr = 4
				}
				start := rapid.IntRange(1, 60000).Draw(t, "p0")
				for i := 0; i < n; i++ {
					c.Ports = append(c.Ports, gram.PortRange{Start: uint16(start + 2*i), End: uint16(start + 2*i)})
				}
				total = naddr * n
			}
			if c.Cmd == "arp" {
				c.Live = rapid.IntRange(0, 3).Draw(t, "live") == 0
				c.Replies = rapid.SampledFrom([]int{0, 0, 3, 40}).Draw(t, "replies")
			}
			c.Rate = rapid.SampledFrom([]string{"", "", "200/s", "20/100ms", "3/s"}).Draw(t, "rate")
			if c.Rate == "3/s" && total > 8 {
				// keep the slow scans short: 8 probes at 3/s are enough to be interrupted between two probes
				c.Bits, c.Ports = 29, nil
				if strings.HasPrefix(c.Cmd, "tcp") || c.Cmd == "udp" {
					c.Bits = 30
					c.Ports = []gram.PortRange{{Start: 80, End: 80}, {Start: 443, End: 443}}
				}
				total = 8
			}
			if rapid.IntRange(0, 2).Draw(t, "how") == 0 {
				c.AfterMs = rapid.SampledFrom([]int{0, 1, 5, 20, 60, 150, 320, 600}).Draw(t, "ms")
			} else {
				c.AfterN = rapid.IntRange(1, total+1).Draw(t, "k")
				if c.Live {
					c.AfterN = rapid.IntRange(1, 3*total).Draw(t, "k-live")
				}
			}
			return c
		},
		Check: c12nsCheck,
	})
}
