//go:build verif

package command

import (
	"bytes"
	"context"
	"encoding/json"
	"fmt"
	"math/rand"
	"net"
	"os"
	"runtime"
	"strings"
	"sync"
	"sync/atomic"
	"testing"
	"time"

	kit "verifkit"
	"verifkit/gram"
	"verifkit/vwire"
	"verifkit/wire"

	"github.com/v-byte-cpu/sx/command/log"
	"github.com/v-byte-cpu/sx/pkg/scan"
	"github.com/v-byte-cpu/sx/pkg/scan/socks5"
	"pgregory.net/rapid"
)

// C12: cancellation at any moment ends the scan cleanly and promptly.

const c12Limit = 30 * time.Second

func completeJSONLines(text string) error {
	if text == "" {
		return nil
	}
	if !strings.HasSuffix(text, "\n") {
		return fmt.Errorf("output ends with an incomplete record: %q", clipN(text[strings.LastIndex(text, "\n")+1:], 120))
	}
	for _, l := range strings.Split(strings.TrimSuffix(text, "\n"), "\n") {
		var m map[string]interface{}
		if err := json.Unmarshal([]byte(l), &m); err != nil {
			return fmt.Errorf("output line is not a complete JSON object: %q", clipN(l, 120))
		}
	}
	return nil
}

// ---------------------------------------------------------------- application engine, precise cancel points

type c12AppCase struct {
	N       int    `json:"targets"`
	Outcome []byte `json:"outcomes"` // p positive, n negative, e probe error, I bad line, b blocks until cancelled then fails, B blocks until cancelled then reports
	Workers int    `json:"workers"`
	Kind    string `json:"cancel_after"` // before | probe | result | error | delay
	K       int    `json:"k"`
	ExitMs  int    `json:"exit_delay_ms"`
	StallUs int    `json:"writer_delay_us_per_record"`
	Rate    string `json:"rate,omitempty"` // --rate N/W: workers wait for the limiter when the cancel arrives
}

type c12Hook struct {
	mu      sync.Mutex
	kind    string
	k       int
	counts  map[string]int
	cancel  context.CancelFunc
	fired   bool
	firedAt time.Time
}

func (h *c12Hook) event(kind string) {
	h.mu.Lock()
	h.counts[kind]++
	fire := !h.fired && kind == h.kind && h.counts[kind] == h.k
	if fire {
		h.fired = true
		h.firedAt = time.Now()
	}
	h.mu.Unlock()
	if fire {
		h.cancel()
	}
}

type c12Scanner struct {
	c         c12AppCase
	h         *c12Hook
	completed int64
	expect    int64
}

func (s *c12Scanner) Scan(ctx context.Context, r *scan.Request) (scan.Result, error) {
	s.h.event("probe")
	i := c08Index(r)
	out := byte('n')
	if i >= 0 && i < s.c.N {
		out = s.c.Outcome[i]
	}
	defer func() {
		if atomic.AddInt64(&s.completed, 1) == s.expect && s.c.Kind == "delay" {
			// every probe has finished: the engine signals completion now; cancel inside the exit delay
			at := time.Duration(s.c.ExitMs) * time.Millisecond / 3
			if at > 40*time.Millisecond {
				at = 40 * time.Millisecond
			}
			time.AfterFunc(at, func() { s.h.event("delay") })
		}
	}()
	pos := &socks5.ScanResult{ScanType: "socks", Version: 5, IP: r.DstIP.String(), Port: r.DstPort}
	switch out {
	case 'p':
		return pos, nil
	case 'e':
		return nil, fmt.Errorf("probe failure #%d", i)
	case 'b':
		<-ctx.Done()
		return nil, fmt.Errorf("probe #%d interrupted: %v", i, ctx.Err())
	case 'B':
		<-ctx.Done()
		return pos, nil
	}
	return nil, nil
}

type c12Writer struct {
	mu     sync.Mutex
	h      *c12Hook
	buf    bytes.Buffer
	delay  time.Duration
	lastAt time.Time
}

func (w *c12Writer) Write(p []byte) (int, error) {
	if w.delay > 0 {
		time.Sleep(w.delay)
	}
	w.mu.Lock()
	w.buf.Write(p)
	w.lastAt = time.Now()
	n := bytes.Count(p, []byte("\n"))
	w.mu.Unlock()
	for i := 0; i < n; i++ {
		w.h.event("result")
	}
	return len(p), nil
}

type c12Logger struct {
	log.Logger
	h      *c12Hook
	mu     sync.Mutex
	lastAt time.Time
}

func (l *c12Logger) Error(err error) {
	l.mu.Lock()
	l.lastAt = time.Now()
	l.mu.Unlock()
	l.h.event("error")
}

func c12AppCheck(c c12AppCase) *kit.Verdict {
	v := &kit.Verdict{Units: c.N}
	v.Label("cancel=%s", c.Kind)
	v.Label("workers=%s", bucket(c.Workers, 1, 2, 10, 100))
	v.Label("n=%s", bucket(c.N, 0, 1, 101, 1001))
	if bytes.ContainsAny(c.Outcome, "bB") {
		v.Label("probes-in-flight-at-cancel")
	}
	if c.StallUs > 0 {
		v.Label("slow-consumer")
	}
	var sb strings.Builder
	calls := 0
	for i := 0; i < c.N; i++ {
		if c.Outcome[i] == 'I' {
			fmt.Fprintf(&sb, `{"ip":"10.%d.%d.%d.","port":%d}`+"\n", byte(i>>16), byte(i>>8), byte(i), 1+i%60000)
			continue
		}
		calls++
		fmt.Fprintf(&sb, `{"ip":"10.%d.%d.%d","port":%d}`+"\n", byte(i>>16), byte(i>>8), byte(i), 1+i%60000)
	}
	f, err := os.CreateTemp(c08WorkDir(), "c12-targets-*.jsonl")
	if err != nil {
		return &kit.Verdict{Inconclusive: true}
	}
	defer os.Remove(f.Name())
	f.WriteString(sb.String())
	f.Close()

	ctx, cancel := context.WithCancel(context.Background())
	defer cancel()
	h := &c12Hook{kind: c.Kind, k: c.K, counts: map[string]int{}, cancel: cancel}
	if c.Kind == "delay" {
		h.k = 1
	}
	o := &genericScanCmdOpts{ipFile: f.Name(), workers: c.Workers}
	if c.Rate != "" {
		v.Label("rate-limited")
		if o.rateCount, o.rateWindow, err = parseRateLimit(c.Rate); err != nil {
			return v.Failf("harness: rate %q: %v", c.Rate, err)
		}
	}
	sc := &c12Scanner{c: c, h: h, expect: int64(calls)}
	w := &c12Writer{h: h, delay: time.Duration(c.StallUs) * time.Microsecond}
	real, err := log.NewLogger(w, "c12", log.JSON())
	if err != nil {
		return v.Failf("logger: %v", err)
	}
	lg := &c12Logger{Logger: real, h: h}
	if c.Kind == "before" {
		h.fired, h.firedAt = true, time.Now()
		cancel()
	}
	rand.Seed(1)
	engine := o.newScanEngine(ctx, sc)
	ret := make(chan time.Time, 1)
	go func() {
		startScanEngine(ctx, engine, newEngineConfig(withLogger(lg), withScanRange(&scan.Range{}), withExitDelay(time.Duration(c.ExitMs)*time.Millisecond)))
		ret <- time.Now()
	}()
	if c.Kind == "delay" && calls == 0 {
		// nothing to probe: the engine completes at once and the exit delay starts right away
		time.AfterFunc(20*time.Millisecond, func() { h.event("delay") })
	}
	var returned time.Time
	// "bounded time": 30 s in general (expected: milliseconds); a rate-limited scan must not make the cancel wait for
	// limiter slots (workers x rate interval can be minutes), so 8 s there
	limit := c12Limit
	if c.Rate != "" {
		limit = 8 * time.Second
	}
	overall := time.After(150 * time.Second)
	tick := time.NewTicker(50 * time.Millisecond)
	defer tick.Stop()
wait:
	for {
		select {
		case returned = <-ret:
			break wait
		case <-tick.C:
			h.mu.Lock()
			fired, firedAt := h.fired, h.firedAt
			h.mu.Unlock()
			if fired && time.Since(firedAt) > limit {
				buf := make([]byte, 1<<20)
				return v.Failf("the scan call has not returned %v after the cancellation %s\n%s", limit, c12Desc(c), clipN(string(buf[:stack(buf)]), 3000))
			}
		case <-overall:
			buf := make([]byte, 1<<20)
			return v.Failf("harness: cancel point not reached and the scan did not end in 150 s (%s)\n%s", c12Desc(c), clipN(string(buf[:stack(buf)]), 2000))
		}
	}
	h.mu.Lock()
	fired, firedAt := h.fired, h.firedAt
	h.mu.Unlock()
	if !fired {
		// the run ended before the cancel point was reached (e.g. fewer results than k): nothing to judge
		return &kit.Verdict{Inconclusive: true}
	}
	if took := returned.Sub(firedAt); took > limit {
		return v.Failf("the scan call returned only %v after the cancellation %s", took, c12Desc(c))
	}
	// the result stream the call was draining comes to an end
	endBy := time.After(10 * time.Second)
drain:
	for {
		select {
		case _, ok := <-engine.Results():
			if !ok {
				break drain
			}
		case <-endBy:
			return v.Failf("the result stream was still open 10 s after the cancelled scan call returned (cancellation %s)", c12Desc(c))
		}
	}
	// nothing may be written or logged after the call returned
	time.Sleep(25 * time.Millisecond)
	w.mu.Lock()
	text, lastW := w.buf.String(), w.lastAt
	w.mu.Unlock()
	lg.mu.Lock()
	lastE := lg.lastAt
	lg.mu.Unlock()
	if lastW.After(returned) {
		return v.Failf("an output record was written %v after the scan call had returned (cancellation %s)", lastW.Sub(returned), c12Desc(c))
	}
	if lastE.After(returned) {
		return v.Failf("an error was logged %v after the scan call had returned (cancellation %s)", lastE.Sub(returned), c12Desc(c))
	}
	if err := completeJSONLines(text); err != nil {
		return v.Failf("%v (cancellation %s)", err, c12Desc(c))
	}
	v.NonTrivial = c.Kind != "before" && c.N >= 2
	return v
}

func stack(buf []byte) int { return runtime.Stack(buf, true) }

func c12Desc(c c12AppCase) string {
	switch c.Kind {
	case "before":
		return "before the scan started"
	case "delay":
		return fmt.Sprintf("during the exit delay (%d ms)", c.ExitMs)
	}
	return fmt.Sprintf("after %s #%d (%d targets, %d workers)", c.Kind, c.K, c.N, c.Workers)
}

func TestC12App(t *testing.T) {
	kit.Run(t, kit.Spec[c12AppCase]{
		Prop: "C12",
		Rule: "application engine as the commands assemble it (genericScanCmdOpts.newScanEngine over a generated target file, real ResultChan, real JSON logger, startScanEngine) with a drawn outcome per target (positive / negative / error / bad line / probes that are still in flight at the cancel and then fail or report), 1..1000 workers, 0..3000 targets (more results than the 2x1000-slot buffers, more errors than the 100-slot buffers), prompt or slow output writer, optionally a slow --rate (workers waiting for the limiter at the cancel); the parent context is cancelled synchronously at an exact point: before the start, after the k-th probe start / k-th record written / k-th error logged (k drawn over the whole run), or inside the exit delay (30 ms .. 10 min long). Oracle: the call returns within 30 s of the cancel (else goroutine dump), nothing is written or logged after it returned, the output is a sequence of complete JSON lines, the process survives (race detector on). non-trivial: cancel strictly inside a run of >=2 targets; distinct by case",
		Gen: func(t *rapid.T) c12AppCase {
			c := c12AppCase{N: rapid.SampledFrom([]int{0, 1, 2, 30, 150, 1200, 3000}).Draw(t, "n"), Workers: rapid.SampledFrom([]int{1, 2, 8, 100, 1000}).Draw(t, "workers"),
				ExitMs: rapid.SampledFrom([]int{30, 300}).Draw(t, "exit"), StallUs: rapid.SampledFrom([]int{0, 0, 50, 400}).Draw(t, "stall")}
			c.Kind = rapid.SampledFrom([]string{"probe", "probe", "result", "error", "delay", "delay", "before"}).Draw(t, "kind")
			if c.Kind == "delay" && rapid.Bool().Draw(t, "long-delay") {
				c.ExitMs = 600000 // Ctrl-C during a long exit delay must still end the scan promptly
			}
			mix := rapid.SampledFrom([]string{"pne", "ppppn", "eeeen", "pneI", "p", "e", "IIIp"}).Draw(t, "mix")
			c.Outcome = make([]byte, c.N)
			cnt := map[byte]int{}
			for i := range c.Outcome {
				c.Outcome[i] = mix[kit.Uniform(t, "outcome", len(mix))]
				cnt[c.Outcome[i]]++
			}
			// probes in flight at the moment of the cancel (at most workers-1, so the others keep making progress)
			if c.Kind != "delay" && c.N > 0 && c.Workers > 1 && rapid.Bool().Draw(t, "inflight") {
				nb := rapid.IntRange(1, min(min(c.Workers-1, c.N), 64)).Draw(t, "nblock")
				for i := 0; i < nb; i++ {
					j := kit.Uniform(t, "blockat", c.N)
					cnt[c.Outcome[j]]--
					c.Outcome[j] = "bB"[rapid.IntRange(0, 1).Draw(t, "blockkind")]
				}
			}
			avail := map[string]int{"probe": c.N - cnt['I'], "result": cnt['p'], "error": cnt['e'] + cnt['I']}
			if c.Kind == "probe" || c.Kind == "result" || c.Kind == "error" {
				if avail[c.Kind] <= 0 {
					c.Kind = "before"
				} else {
					c.K = 1 + kit.Uniform(t, "k", avail[c.Kind])
				}
			}
			if c.StallUs > 0 && c.N > 200 {
				c.StallUs = 50
			}
			if c.Kind == "probe" && c.N >= 30 && rapid.IntRange(0, 3).Draw(t, "rate") == 0 {
				// a slow rate: when the cancel arrives (early in the scan) every other worker is waiting for the limiter
				c.Rate = rapid.SampledFrom([]string{"1/2s", "30/m", "2/s", "1/800ms", "150/m", "20/m", "1200/h", "3/2s"}).Draw(t, "ratestr")
				c.K = 1 + kit.Uniform(t, "k-early", 3)
				if c.Workers < 8 {
					c.Workers = rapid.SampledFrom([]int{8, 100}).Draw(t, "rate-workers")
				}
			}
			return c
		},
		Check: c12AppCheck,
	})
}

// ---------------------------------------------------------------- packet commands: SIGINT after every k-th frame

type c12PktCase struct {
	Cmd     string `json:"command"`
	Addrs   int    `json:"addresses_log2"`
	NPorts  int    `json:"single_port_ranges"`
	Answer  int    `json:"every_nth_probe_is_answered"` // 0: none
	BadLine bool   `json:"target_file_with_bad_lines"`
	ExitMs  int    `json:"exit_delay_ms"`
	VPN     bool   `json:"vpn"`
	Seed    int64  `json:"rand_seed"`
}

func c12PktRun(c c12PktCase, k int, inDelay bool) (*cmdResult, []string) {
	base := strings.Fields(c.Cmd)[0]
	kind := scanKind(c.Cmd)
	eth := !c.VPN || base == "arp"
	var mu sync.Mutex
	n := 0
	sc := vwire.Scenario{
		OnFilter: func(w *vwire.World, s *vwire.Socket) {
			if k == 0 && s.Index == 0 && !inDelay {
				sendSIGINT()
			}
		},
		OnWrite: func(w *vwire.World, s *vwire.Socket, wr *vwire.Write) error {
			mu.Lock()
			n++
			cur := n
			mu.Unlock()
			if c.Answer > 0 && cur%c.Answer == 0 {
				f := wire.Decode(wr.Frame, eth)
				var src uint32
				var port uint16
				switch {
				case f.ARP != nil && len(f.ARP.TPA) == 4:
					src = gram.BytesU32(f.ARP.TPA)
				case len(f.IPs) > 0:
					src = gram.BytesU32(f.IPs[0].Dst[:])
					if f.TCP != nil {
						port = f.TCP.DstPort
					}
				}
				s.Inject(c16Reply(kind, eth, src, port))
			}
			if !inDelay && cur == k {
				sendSIGINT()
			}
			return nil
		},
	}
	files := &cmdFiles{}
	defer files.cleanup()
	args := append([]string{}, strings.Fields(c.Cmd)...)
	exitMs := c.ExitMs
	if inDelay {
		exitMs = 600000 // interrupted inside a long exit delay
	}
	args = append(args, "-i", "lo", "--srcip", c01SrcIP, "--json", "--exit-delay", fmt.Sprintf("%dms", exitMs))
	if base == "arp" {
		args = append(args, "--srcmac", c01SrcMAC)
	} else if !c.VPN {
		args = append(args, "--srcmac", c01SrcMAC, "--gwmac", c01GwMAC, "-a", files.write("arpcache", ""))
	}
	if !cmdPortless(base) {
		var ps []string
		for i := 0; i < c.NPorts; i++ {
			ps = append(ps, fmt.Sprint(2000+2*i))
		}
		args = append(args, "-p", strings.Join(ps, ","))
	}
	if c.BadLine && base != "arp" {
		var sb strings.Builder
		for i := 0; i < 1<<uint(c.Addrs); i++ {
			fmt.Fprintf(&sb, `{"ip":"10.9.0.%d"}`+"\n", i)
			if i%3 == 1 {
				sb.WriteString(`{"ip":"10.9.0.x"}` + "\n")
			}
		}
		args = append(args, "-f", files.write("targets", sb.String()))
	} else {
		args = append(args, fmt.Sprintf("10.9.0.0/%d", 32-c.Addrs))
	}
	world := vwire.NewWorld(sc)
	if inDelay {
		// cancel inside the exit delay: a fixed fraction after the expected end of sending is not observable from here,
		// so the signal is sent when the (last) socket has been idle for a third of the delay
		go func() {
			idle := 40 * time.Millisecond
			for i := 0; i < 3000; i++ {
				time.Sleep(idle / 4)
				socks := world.SocketList()
				if len(socks) == 0 {
					continue
				}
				info := socks[len(socks)-1].Info()
				if info.Closed {
					return
				}
				if len(info.Writes) > 0 && time.Since(info.Writes[len(info.Writes)-1].At) > idle {
					sendSIGINT()
					return
				}
			}
		}()
	}
	res := runCmd(cmdRun{Args: args, Seed: c.Seed, World: world, Timeout: c12Limit})
	return res, args
}

func c12PktCheck(c c12PktCase) *kit.Verdict {
	v := &kit.Verdict{}
	base := strings.Fields(c.Cmd)[0]
	v.Label("cmd=%s", c.Cmd)
	total := 1 << uint(c.Addrs)
	if !cmdPortless(base) {
		total *= c.NPorts
	}
	if c.NPorts > 200 {
		v.Label("chunked")
	}
	if c.Answer > 0 {
		v.Label("results-flowing")
	}
	if c.BadLine && base != "arp" {
		v.Label("errors-flowing")
	}
	judge := func(res *cmdResult, args []string, where string) *kit.Verdict {
		line := "sx " + strings.Join(args, " ")
		if res.Hung {
			return v.Failf("%s\nSIGINT %s: Execute() had not returned %v later\n%s", line, where, c12Limit, clipN(res.Goroutines, 3000))
		}
		if res.Err != nil && strings.HasPrefix(res.Err.Error(), "PANIC") {
			return v.Failf("%s\nSIGINT %s: %v", line, where, res.Err)
		}
		if res.LateStdout != "" || res.LateStderr != "" {
			return v.Failf("%s\nSIGINT %s: output after Execute() returned: stdout %q stderr %q", line, where, clipN(res.LateStdout, 200), clipN(res.LateStderr, 200))
		}
		if err := completeJSONLines(res.Stdout); err != nil {
			return v.Failf("%s\nSIGINT %s: %v", line, where, err)
		}
		return nil
	}
	// every k: 0 = right after the first socket is ready, 1..total = after the k-th frame, then inside the exit delay
	for k := 0; k <= total; k++ {
		res, args := c12PktRun(c, k, false)
		if bad := judge(res, args, fmt.Sprintf("after frame %d of %d", k, total)); bad != nil {
			return bad
		}
		v.Units++
	}
	res, args := c12PktRun(c, 0, true)
	if bad := judge(res, args, "inside the exit delay"); bad != nil {
		return bad
	}
	v.Units++
	v.NonTrivial = total >= 2
	return v
}

func TestC12Packet(t *testing.T) {
	kit.Run(t, kit.Spec[c12PktCase]{
		Prop: "C12",
		Rule: "full packet-scan commands on the virtual wire (arp, icmp, udp, tcp variants; Ethernet/raw-IP; subnet or a target file with bad lines so that errors flow; 1..210 port ranges incl. a chunk boundary; every n-th probe answered so that results flow). For ONE generated scenario the command is run once per cancel point: SIGINT (the real signal, to the own process) right after the first socket is ready, after the k-th frame for EVERY k = 1..total, and inside a 10-minute exit delay. Oracle per run: Execute() returns within 30 s (else goroutine dump), no panic, no byte on stdout/stderr after the return, stdout is complete JSON lines. units = runs. non-trivial: >=2 probes; distinct by case",
		Gen: func(t *rapid.T) c12PktCase {
			c := c12PktCase{Cmd: rapid.SampledFrom(c01PacketCmds).Draw(t, "cmd"), Seed: rapid.Int64().Draw(t, "seed"), ExitMs: rapid.SampledFrom([]int{5, 30, 90}).Draw(t, "exit")}
			base := strings.Fields(c.Cmd)[0]
			c.Addrs = rapid.IntRange(0, 4).Draw(t, "addrs")
			if !cmdPortless(base) {
				c.NPorts = rapid.SampledFrom([]int{1, 2, 5, 201, 210}).Draw(t, "nports")
				if c.NPorts > 5 {
					c.Addrs = 0
				} else if c.Addrs > 3 {
					c.Addrs = 3
				}
			}
			c.Answer = rapid.SampledFrom([]int{0, 1, 3}).Draw(t, "answer")
			c.BadLine = rapid.IntRange(0, 2).Draw(t, "badline") == 0
			if base != "arp" {
				c.VPN = rapid.Bool().Draw(t, "vpn")
			}
			return c
		},
		Check: c12PktCheck,
	})
}

// ---------------------------------------------------------------- socks command against stalling servers, SIGINT while probes are in flight

type c12SocksCase struct {
	Servers int  `json:"stalling_servers"`
	Workers int  `json:"workers"`
	After   int  `json:"sigint_after_connections"`
	Greet   bool `json:"servers_send_first_byte"`
}

func c12SocksCheck(c c12SocksCase) *kit.Verdict {
	v := &kit.Verdict{Units: c.Servers}
	var lns []net.Listener
	var ports []string
	var accepted int64
	var conns []net.Conn
	var cmu sync.Mutex
	defer func() {
		for _, l := range lns {
			l.Close()
		}
		cmu.Lock()
		for _, cn := range conns {
			cn.Close()
		}
		cmu.Unlock()
	}()
	for i := 0; i < c.Servers; i++ {
		l, err := net.Listen("tcp4", "127.0.0.1:0")
		if err != nil {
			return &kit.Verdict{Inconclusive: true}
		}
		lns = append(lns, l)
		ports = append(ports, fmt.Sprint(l.Addr().(*net.TCPAddr).Port))
		go func() {
			for {
				cn, err := l.Accept()
				if err != nil {
					return
				}
				cmu.Lock()
				conns = append(conns, cn)
				cmu.Unlock()
				if c.Greet {
					cn.Write([]byte{5})
				}
				if int(atomic.AddInt64(&accepted, 1)) == c.After {
					sendSIGINT()
				}
				// then stall: never answer
			}
		}()
	}
	args := []string{"socks", "--json", "-w", fmt.Sprint(c.Workers), "--timeout", "20s", "-p", strings.Join(ports, ","), "127.0.0.1"}
	res := runCmd(cmdRun{Args: args, Timeout: c12Limit})
	line := "sx " + strings.Join(args, " ")
	if res.Hung {
		return v.Failf("%s\nSIGINT while %d probes were stalled in the data phase (timeout 20 s): Execute() had not returned %v later\n%s", line, c.After, c12Limit, clipN(res.Goroutines, 3000))
	}
	if took := res.Returned.Sub(res.Started); took > 15*time.Second {
		return v.Failf("%s\nSIGINT after %d connections: the command took %v to end (probes wait out their 20 s timeouts instead of ending promptly)", line, c.After, took)
	}
	if res.Err != nil && strings.HasPrefix(res.Err.Error(), "PANIC") {
		return v.Failf("%s: %v", line, res.Err)
	}
	if res.LateStdout != "" || res.LateStderr != "" {
		return v.Failf("%s: output after the return: %q %q", line, clipN(res.LateStdout, 200), clipN(res.LateStderr, 200))
	}
	if err := completeJSONLines(res.Stdout); err != nil {
		return v.Failf("%s: %v", line, err)
	}
	v.NonTrivial = c.Servers >= 2
	return v
}

func TestC12Socks(t *testing.T) {
	kit.Run(t, kit.Spec[c12SocksCase]{
		Prop: "C12",
		Rule: "full socks command (timeout 20 s) against 1..12 loopback servers that accept, optionally send one byte, and stall; SIGINT when the n-th connection has been accepted, i.e. while probes are blocked in the data phase. Oracle: Execute() returns within 15 s (probes do not wait out their timeouts), no panic, nothing after the return, complete lines. non-trivial: >=2 servers; distinct by case",
		Gen: func(t *rapid.T) c12SocksCase {
			c := c12SocksCase{Servers: rapid.SampledFrom([]int{1, 2, 5, 12}).Draw(t, "servers"), Workers: rapid.SampledFrom([]int{1, 3, 100}).Draw(t, "workers"), Greet: rapid.Bool().Draw(t, "greet")}
			c.After = 1 + kit.Uniform(t, "after", min(c.Servers, c.Workers))
			return c
		},
		Check: c12SocksCheck,
	})
}

// ---------------------------------------------------------------- application engine over a huge target space, cancelled early

type c12BigCase struct {
	Cmd     string `json:"command"`
	CIDR    string `json:"cidr"`
	Ports   string `json:"ports"`
	Workers int    `json:"workers"`
	K       int    `json:"cancel_after_probe"`
	Exclude bool   `json:"with_exclude_file"`
}

func c12BigCheck(c c12BigCase) *kit.Verdict {
	v := &kit.Verdict{Units: c.K}
	v.Label("cmd=%s", c.Cmd)
	files := &cmdFiles{}
	defer files.cleanup()
	args := []string{"-w", fmt.Sprint(c.Workers), "-p", c.Ports}
	if c.Exclude {
		args = append(args, "--exclude", files.write("exclude", "10.255.0.0/16\n"))
	}
	args = append(args, c.CIDR)
	opts, rest, err := appCmdOpts(c.Cmd, args)
	if err != nil {
		return v.Failf("options: %v", err)
	}
	r, err := opts.parseScanRange(rest)
	if err != nil {
		return v.Failf("scan range: %v", err)
	}
	ctx, cancel := context.WithCancel(context.Background())
	defer cancel()
	h := &c12Hook{kind: "probe", k: c.K, counts: map[string]int{}, cancel: cancel}
	sc := &c12Scanner{c: c12AppCase{N: 0, Kind: "probe"}, h: h, expect: -1}
	w := &c12Writer{h: h}
	real, err := log.NewLogger(w, "c12", log.JSON())
	if err != nil {
		return v.Failf("logger: %v", err)
	}
	lg := &c12Logger{Logger: real, h: h}
	rand.Seed(7)
	engine := opts.newScanEngine(ctx, sc)
	ret := make(chan time.Time, 1)
	go func() {
		startScanEngine(ctx, engine, newEngineConfig(withLogger(lg), withScanRange(r), withExitDelay(300*time.Millisecond)))
		ret <- time.Now()
	}()
	line := fmt.Sprintf("sx %s %s", c.Cmd, strings.Join(args, " "))
	tick := time.NewTicker(50 * time.Millisecond)
	defer tick.Stop()
	overall := time.After(120 * time.Second)
	for {
		select {
		case returned := <-ret:
			h.mu.Lock()
			fired, firedAt := h.fired, h.firedAt
			h.mu.Unlock()
			if !fired {
				return v.Failf("harness: %s ended before probe %d", line, c.K)
			}
			v.NonTrivial = true
			v.Label("returned-in=%s", bucket(int(returned.Sub(firedAt)/time.Millisecond), 0, 10, 100, 1000))
			return v
		case <-tick.C:
			h.mu.Lock()
			fired, firedAt := h.fired, h.firedAt
			h.mu.Unlock()
			if fired && time.Since(firedAt) > c12Limit {
				buf := make([]byte, 1<<20)
				return v.Failf("%s\ncancelled after probe %d of a scan over a huge target space; the scan call has not returned %v later\n%s", line, c.K, c12Limit, clipN(string(buf[:stack(buf)]), 3000))
			}
		case <-overall:
			return v.Failf("harness: %s: cancel point not reached in 120 s", line)
		}
	}
}

// One case per test process (the driver runs each variant in its own process): after a cancel the abandoned request
// generators of the unchanged code keep iterating the remaining target space without blocking - harmless for sx, which exits,
// but it would burn the cores of a long-lived test process.
func TestC12BigSpace(t *testing.T) {
	variant := kit.EnvInt("C12_BIG", 0)
	cases := []c12BigCase{
		{Cmd: "socks", CIDR: "10.0.0.0/8", Ports: "1-65535", Workers: 100, K: 1},
		{Cmd: "elastic", CIDR: "10.0.0.0/8", Ports: "9200,9201-9300", Workers: 8, K: 500},
		{Cmd: "docker", CIDR: "0.0.0.0/0", Ports: "2375", Workers: 1, K: 3},
		{Cmd: "socks", CIDR: "10.0.0.0/9", Ports: "1080-1180", Workers: 1000, K: 2000, Exclude: true},
	}
	m := kit.NewManual(t, "C12", "application engine (real option parsing, real IP x port generators, real engine, startScanEngine) over a huge target space (/0../9 x up to 65535 ports), cancelled synchronously inside the k-th probe start; the call must return within 30 s although billions of targets remain. One fixed scenario per process (variant from the driver). non-trivial: always")
	c := cases[variant%len(cases)]
	m.Record(t, c, c12BigCheck(c))
}
