//go:build verif

package command

import (
	"context"
	"encoding/hex"
	"encoding/json"
	"fmt"
	"net"
	"os"
	"os/exec"
	"path/filepath"
	"sort"
	"strings"
	"testing"
	"time"

	kit "verifkit"
	"verifkit/gram"
	"verifkit/wire"

	"pgregory.net/rapid"
)

// C17: probes leave through the right interface with the right source (real sx binary, real sockets, generated
// network namespaces).

type c17Iface struct {
	Name  string   `json:"name"`
	Kind  string   `json:"kind"`
	Addrs []string `json:"addrs"`
	NoV6  bool     `json:"disable_ipv6"`
}

type c17Route struct {
	Dst    string `json:"dst,omitempty"` // "" = default route; else a more specific route that must NOT count as default
	Dev    string `json:"dev"`
	Via    string `json:"via,omitempty"`
	Metric int64  `json:"metric"`
	Src    string `json:"src,omitempty"` // preferred-source hint of the route (as dhcpcd / systemd-networkd install them)
}

type c17Case struct {
	Ifaces []c17Iface `json:"ifaces"`
	Routes []c17Route `json:"routes"`
	Scan   string     `json:"scan"` // arp icmp tcp udp
	Target string     `json:"target"`
	Iface  string     `json:"iface_flag,omitempty"`
	SrcIP  string     `json:"srcip_flag,omitempty"`
	SrcMAC string     `json:"srcmac_flag,omitempty"`
	Live   bool       `json:"arp_live_mode"` // arp --live: several passes, all must obey the rule
}

type c17Report struct {
	Injected   int    `json:"injected"`
	SetupError string `json:"setup_error"`
	Ifaces     []struct {
		Name  string   `json:"name"`
		Index int      `json:"index"`
		MAC   string   `json:"mac"`
		Addrs []string `json:"addrs"`
	} `json:"ifaces"`
	Frames []struct {
		Iface string `json:"iface"`
		Link  bool   `json:"link_header"`
		Hex   string `json:"hex"`
	} `json:"frames"`
	Exit       int    `json:"exit"`
	TimedOut   bool   `json:"timed_out"`
	Stdout     string `json:"stdout"`
	Stderr     string `json:"stderr"`
	WallMs     int64  `json:"wall_ms"`
	SigintAtMs int64  `json:"sigint_at_ms"`
	KilledBy   string `json:"killed_by"`
}

func (c c17Case) args() []string {
	a := []string{c.Scan, "--json", "--exit-delay", "30ms"}
	if c.Live && c.Scan == "arp" {
		a = append(a, "--live", "60ms")
	}
	if c.Scan != "arp" {
		a = append(a, "--gwmac", "02:00:00:00:ee:01", "-a", "/dev/null")
	}
	if c.Scan == "tcp" || c.Scan == "udp" {
		a = append(a, "-p", "80")
	}
	if c.Iface != "" {
		a = append(a, "--iface", c.Iface)
	}
	if c.SrcIP != "" {
		a = append(a, "--srcip", c.SrcIP)
	}
	if c.SrcMAC != "" {
		a = append(a, "--srcmac", c.SrcMAC)
	}
	return append(a, c.Target)
}

func c17Run(c c17Case) (*c17Report, error) {
	sx, tool := os.Getenv("VERIF_SX_BIN"), os.Getenv("VERIF_TOOL_NSRUN")
	if sx == "" || tool == "" {
		return nil, fmt.Errorf("VERIF_SX_BIN / VERIF_TOOL_NSRUN not set")
	}
	sc := map[string]interface{}{"ifaces": c.Ifaces, "routes": c.Routes, "sx_bin": sx, "sx_args": c.args(), "timeout_s": 30}
	if c.Live && c.Scan == "arp" {
		// interrupt after three passes' worth of frames (or after 8 s if they never come)
		if p, ok := gram.RefIPv4Target(c.Target); ok {
			sc["sigint_after_frames"] = 3 * int(p.Size())
		}
		sc["sigint_after_ms"] = 8000
	}
	raw, _ := json.Marshal(sc)
	f, err := os.CreateTemp(c08WorkDir(), "c17-*.json")
	if err != nil {
		return nil, err
	}
	defer os.Remove(f.Name())
	f.Write(raw)
	f.Close()
	ctx, cancel := context.WithTimeout(context.Background(), 100*time.Second)
	defer cancel()
	cmd := exec.CommandContext(ctx, "unshare", "-n", tool, f.Name())
	cmd.WaitDelay = 2 * time.Second
	out, err := cmd.Output()
	if err != nil && len(out) == 0 {
		return nil, fmt.Errorf("unshare -n nsrun: %v", err)
	}
	var rep c17Report
	if err := json.Unmarshal(out, &rep); err != nil {
		return nil, fmt.Errorf("nsrun output: %v: %s", err, clipN(string(out), 300))
	}
	return &rep, nil
}

type c17Choice struct {
	iface string
	src   string // IPv4 dotted, "" = none usable
}

func c17Check(c c17Case) *kit.Verdict {
	v := &kit.Verdict{}
	rep, err := c17Run(c)
	if err != nil {
		// infrastructure (unshare refused, tool missing): never a verdict
		v.Inconclusive = true
		fmt.Fprintln(os.Stderr, "C17 infrastructure problem:", err)
		return v
	}
	if rep.SetupError != "" {
		v.Inconclusive = true
		fmt.Fprintln(os.Stderr, "C17 topology could not be built:", rep.SetupError)
		return v
	}
	line := "sx " + strings.Join(c.args(), " ")
	target, ok := gram.RefIPv4Target(c.Target)
	if !ok {
		return v.Failf("harness: target %q", c.Target)
	}
	v.Label("scan=%s", c.Scan)
	flags := ""
	for _, f := range []struct{ s, n string }{{c.Iface, "iface"}, {c.SrcIP, "srcip"}, {c.SrcMAC, "srcmac"}} {
		if f.s != "" {
			flags += "+" + f.n
		}
	}
	v.Label("flags=%s", flags)
	// ---- reference model of the selection rule, from the generated configuration as the kernel reports it
	type ifc struct {
		name, mac string
		v4        []gram.Prefix // networks in order
		first     string        // first address as listed ("" none); may be IPv6
	}
	var all []ifc
	byName := map[string]*ifc{}
	for _, i := range rep.Ifaces {
		x := ifc{name: i.Name, mac: i.MAC}
		for k, a := range i.Addrs {
			if k == 0 {
				x.first = a
			}
			if p, ok := gram.RefIPv4Target(a); ok {
				x.v4 = append(x.v4, p)
			}
		}
		all = append(all, x)
	}
	for i := range all {
		byName[all[i].name] = &all[i]
	}
	allowed := all
	if c.Iface != "" {
		if byName[c.Iface] == nil {
			return v.Failf("harness: --iface %s not in the namespace", c.Iface)
		}
		allowed = []ifc{*byName[c.Iface]}
	}
	var choices []c17Choice
	rule := ""
	for _, i := range allowed {
		for _, p := range i.v4 {
			if p.Contains(target.Base) {
				choices = append(choices, c17Choice{i.name, gram.U32String(p.Addr)})
			}
		}
	}
	firstV4 := func(i *ifc) string {
		if p, ok := gram.RefIPv4Target(i.first); ok {
			return gram.U32String(p.Addr)
		}
		return ""
	}
	switch {
	case len(choices) > 0:
		rule = "attached"
	case c.Iface != "":
		rule = "iface-flag"
		choices = []c17Choice{{c.Iface, firstV4(byName[c.Iface])}}
	default:
		rule = "default-route"
		best := int64(-1)
		for _, r := range c.Routes {
			if r.Dst == "" && (best < 0 || r.Metric < best) {
				best = r.Metric
			}
		}
		for _, r := range c.Routes {
			if r.Dst == "" && r.Metric == best && byName[r.Dev] != nil {
				choices = append(choices, c17Choice{r.Dev, firstV4(byName[r.Dev])})
			}
		}
		if len(choices) == 0 {
			rule = "no-interface"
		}
	}
	v.Label("rule=%s", rule)
	// what each admissible choice means on the wire
	type expect struct {
		iface, srcIP, srcMAC string
		raw                  bool
	}
	var exps []expect
	errorAdmissible := len(choices) == 0 // some admissible choice (e.g. one of several equal-metric routes) is not usable
	for _, ch := range choices {
		i := byName[ch.iface]
		e := expect{iface: ch.iface, srcIP: ch.src, srcMAC: i.mac}
		if c.SrcIP != "" {
			e.srcIP = c.SrcIP
		}
		if c.SrcMAC != "" {
			e.srcMAC = c.SrcMAC
		}
		if e.srcIP == "" {
			errorAdmissible = true
			continue // no IPv4 source address: not usable
		}
		if c.SrcMAC != "" && len(c.SrcMAC) != 17 {
			errorAdmissible = true
			continue // an EUI-64 / InfiniBand hardware address cannot be the source of an Ethernet frame: not usable
		}
		if e.srcMAC == "" {
			if c.Scan == "arp" {
				errorAdmissible = true
				continue // ARP needs a hardware address
			}
			e.raw = true
		}
		exps = append(exps, e)
	}
	// ---- what was observed
	type probe struct {
		iface, srcIP, srcMAC, ethSrc string
		raw                          bool
	}
	var probes []probe
	for _, f := range rep.Frames {
		b, err := hex.DecodeString(f.Hex)
		if err != nil {
			continue
		}
		d := wire.Decode(b, f.Link)
		switch {
		case f.Link && d.ARP != nil:
			if d.ARP.Op == 1 && len(d.ARP.TPA) == 4 && target.Contains(gram.BytesU32(d.ARP.TPA)) && c.Scan == "arp" {
				probes = append(probes, probe{iface: f.Iface, srcIP: wire.IPString([4]byte{d.ARP.SPA[0], d.ARP.SPA[1], d.ARP.SPA[2], d.ARP.SPA[3]}), srcMAC: wire.MACString(d.ARP.SHA), ethSrc: wire.MACString(d.Eth.Src[:])})
			}
		case len(d.IPs) > 0 && target.Contains(gram.BytesU32(d.IPs[0].Dst[:])):
			mine := (c.Scan == "icmp" && d.ICMP != nil) || (c.Scan == "tcp" && d.TCP != nil) || (c.Scan == "udp" && d.UDP != nil)
			if mine {
				p := probe{iface: f.Iface, srcIP: wire.IPString(d.IPs[0].Src), raw: !f.Link}
				if f.Link {
					p.srcMAC = wire.MACString(d.Eth.Src[:])
					p.ethSrc = p.srcMAC
				}
				probes = append(probes, p)
			}
		case !f.Link && len(b) > 0 && b[0]>>4 != 6 && c.Scan != "arp":
			// something that is neither IPv4 nor the kernel's IPv6 chatter was written into the tunnel: an Ethernet frame on a MAC-less device
			probes = append(probes, probe{iface: f.Iface, srcIP: "?", srcMAC: "?", raw: false})
		}
	}
	failedVisibly := rep.Exit != 0 || len(errorLines(rep.Stderr)) > 0
	ctx := func() string {
		var sb strings.Builder
		for _, i := range all {
			fmt.Fprintf(&sb, "  %s mac=%s addrs=%v\n", i.name, i.mac, i.v4)
		}
		fmt.Fprintf(&sb, "  default routes: %+v\n  exit=%d stderr: %s", c.Routes, rep.Exit, clipN(strings.TrimSpace(rep.Stderr), 300))
		return sb.String()
	}
	if rep.TimedOut {
		return v.Failf("%s did not exit within 30 s\n%s", line, ctx())
	}
	if len(exps) == 0 {
		if len(probes) > 0 {
			return v.Failf("%s\nno usable interface / IPv4 source / hardware address exists for this scan (rule: %s), yet %d probe frames left, e.g. on %s from %s / %s\n%s", line, rule, len(probes), probes[0].iface, probes[0].srcIP, probes[0].srcMAC, ctx())
		}
		if !failedVisibly {
			return v.Failf("%s\nno usable interface / IPv4 source exists (rule: %s) but the scan reported no error (exit 0, no error record)\n%s", line, rule, ctx())
		}
		v.Label("outcome=error")
		v.NonTrivial = len(c.Ifaces) >= 2
		return v
	}
	nports := 1
	want := int(target.Size()) * nports
	if len(probes) == 0 && errorAdmissible && failedVisibly {
		// the rule allows several choices (equal metrics, several attached interfaces) and the one taken is unusable
		v.Label("outcome=error-on-one-of-several-choices")
		v.NonTrivial = len(c.Ifaces) >= 2
		return v
	}
	if len(probes) == 0 {
		return v.Failf("%s\nno probe frame left through any interface; expected %d through %s\n%s", line, want, exps[0].iface, ctx())
	}
	for _, p := range probes {
		okp := false
		for _, e := range exps {
			if p.iface == e.iface && p.srcIP == e.srcIP && p.raw == e.raw && (e.raw || (p.srcMAC == e.srcMAC && p.ethSrc == e.srcMAC)) {
				okp = true
			}
		}
		if !okp {
			var el []string
			for _, e := range exps {
				el = append(el, fmt.Sprintf("%s src %s mac %s raw-ip=%v", e.iface, e.srcIP, e.srcMAC, e.raw))
			}
			sort.Strings(el)
			return v.Failf("%s\na probe left through %s with source %s, MAC %s (ethernet source %s), raw-ip=%v; the rule (%s) allows only: %s\n%s", line, p.iface, p.srcIP, p.srcMAC, p.ethSrc, p.raw, rule, strings.Join(el, " | "), ctx())
		}
	}
	first := probes[0]
	for _, p := range probes {
		if p.iface != first.iface || p.srcIP != first.srcIP {
			return v.Failf("%s\nprobes of one scan left through different interfaces / sources: %s/%s and %s/%s\n%s", line, first.iface, first.srcIP, p.iface, p.srcIP, ctx())
		}
	}
	if c.Live && c.Scan == "arp" {
		if len(probes) < 2*want {
			return v.Failf("%s\nlive mode (rescan every 60 ms), interrupted after three passes' worth of frames or 8 s: only %d probes captured, expected at least two passes of %d\n%s", line, len(probes), want, ctx())
		}
		v.Label("live")
	} else if len(probes) != want {
		return v.Failf("%s\n%d probe frames captured, expected %d\n%s", line, len(probes), want, ctx())
	}
	if rep.Exit != 0 {
		return v.Failf("%s\nprobes were sent correctly but the exit status is %d\n%s", line, rep.Exit, ctx())
	}
	v.Label("outcome=probes-%s", map[bool]string{true: "raw-ip", false: "ethernet"}[first.raw])
	v.Units = len(probes)
	v.NonTrivial = len(c.Ifaces) >= 2
	return v
}

// ---- generation

var c17Nets = []string{"10.1.0", "10.1.1", "10.2.0", "172.16.5", "192.168.50", "192.168.51", "10.20.0"}

func c17Gen(t *rapid.T) c17Case {
	var c c17Case
	nveth := rapid.IntRange(1, 3).Draw(t, "nveth")
	numericNames := rapid.IntRange(0, 5).Draw(t, "numeric-names") == 0
	host := 2
	type net4 struct {
		iface string
		p     gram.Prefix
	}
	var nets []net4
	for i := 0; i < nveth+1; i++ {
		kind, name := "veth", fmt.Sprintf("e%d", i)
		if numericNames {
			// a name made of digits only, chosen to collide with the interface index of a neighbour (lo is 1, pairs take two indexes each)
			name = fmt.Sprint([]int{4, 2, 3}[i%3])
		}
		if i == nveth {
			if !rapid.Bool().Draw(t, "with-tun") {
				break
			}
			kind, name = "tun", "t0"
		}
		ifc := c17Iface{Name: name, Kind: kind}
		switch rapid.IntRange(0, 7).Draw(t, "addr-style") {
		case 0:
			// no IPv4 at all: only the automatic link-local IPv6 address
		case 1:
			ifc.Addrs = []string{fmt.Sprintf("fd00:%d::2/64", i+1)} // IPv6 only, configured
		default:
			na := rapid.SampledFrom([]int{1, 1, 2, 3}).Draw(t, "naddrs")
			for k := 0; k < na; k++ {
				base := c17Nets[kit.Uniform(t, "net", len(c17Nets))]
				bits := rapid.SampledFrom([]int{24, 24, 16, 8, 28, 30}).Draw(t, "bits")
				host++
				h := host
				if bits == 30 {
					h = 1 + host%2
				} else if bits == 28 {
					h = 1 + host%14
				}
				a := fmt.Sprintf("%s.%d/%d", base, h, bits)
				ifc.Addrs = append(ifc.Addrs, a)
				p, _ := gram.RefIPv4Target(a)
				nets = append(nets, net4{name, p})
			}
			if rapid.IntRange(0, 3).Draw(t, "plus-v6") == 0 {
				ifc.Addrs = append(ifc.Addrs, fmt.Sprintf("fd00:%d::2/64", i+1))
			}
		}
		ifc.NoV6 = rapid.IntRange(0, 3).Draw(t, "nov6") == 0 && len(ifc.Addrs) > 0 && !strings.Contains(strings.Join(ifc.Addrs, " "), ":")
		c.Ifaces = append(c.Ifaces, ifc)
	}
	// default routes
	nr := rapid.SampledFrom([]int{0, 1, 1, 2, 3}).Draw(t, "nroutes")
	usedKey := map[string]bool{}
	for k := 0; k < nr; k++ {
		ifc := c.Ifaces[kit.Uniform(t, "rdev", len(c.Ifaces))]
		r := c17Route{Dev: ifc.Name, Metric: rapid.SampledFrom([]int64{0, 10, 100, 100, 600, 100, 10, 2147483646, 2147483647, 4000000000, 4294967295}).Draw(t, "metric")}
		if usedKey[fmt.Sprint(r.Dev, r.Metric)] {
			continue
		}
		usedKey[fmt.Sprint(r.Dev, r.Metric)] = true
		// a gateway only makes sense on a device with an IPv4 network; otherwise a device route
		if ifc.Kind == "veth" && rapid.Bool().Draw(t, "via") {
			for _, n := range nets {
				if n.iface == ifc.Name && n.p.Bits <= 29 {
					gw := n.p.Base + 1
					if gw == n.p.Addr {
						gw = n.p.Base + 2
					}
					r.Via = gram.U32String(gw)
					break
				}
			}
		}
		// a preferred-source hint (one of the device's own IPv4 addresses): the route is a default route all the same
		if rapid.IntRange(0, 3).Draw(t, "src-hint") == 0 {
			for _, n := range nets {
				if n.iface == ifc.Name {
					r.Src = gram.U32String(n.p.Addr)
					break
				}
			}
		}
		c.Routes = append(c.Routes, r)
	}
	// more specific routes (half-default routes of VPN clients, a static /8) - they are not default routes
	for k := 0; k < rapid.SampledFrom([]int{0, 0, 1, 2}).Draw(t, "nspecific"); k++ {
		ifc := c.Ifaces[kit.Uniform(t, "sdev", len(c.Ifaces))]
		c.Routes = append(c.Routes, c17Route{Dst: rapid.SampledFrom([]string{"0.0.0.0/1", "128.0.0.0/1", "0.0.0.0/8", "203.0.0.0/8"}).Draw(t, "sdst"), Dev: ifc.Name,
			Metric: rapid.SampledFrom([]int64{0, 5, 100}).Draw(t, "smetric")})
	}
	c.Scan = rapid.SampledFrom([]string{"arp", "icmp", "tcp", "udp"}).Draw(t, "scan")
	// target: attached to some interface's network, or not attached at all
	if len(nets) > 0 && rapid.IntRange(0, 2).Draw(t, "attached") != 0 {
		n := nets[kit.Uniform(t, "tnet", len(nets))]
		off := uint32(kit.Uniform(t, "toff", int(min(int(n.p.Size()), 200))))
		bits := rapid.SampledFrom([]int{32, 31, 30}).Draw(t, "tbits")
		if bits < n.p.Bits {
			bits = 32
		}
		a := (n.p.Base + off) >> uint(32-bits) << uint(32-bits)
		c.Target = fmt.Sprintf("%s/%d", gram.U32String(a), bits)
	} else {
		c.Target = rapid.SampledFrom([]string{"8.8.8.8/31", "203.0.113.7", "198.51.100.4/30"}).Draw(t, "far")
	}
	if rapid.IntRange(0, 2).Draw(t, "iface-flag") == 0 {
		c.Iface = c.Ifaces[kit.Uniform(t, "iface", len(c.Ifaces))].Name
	}
	if rapid.IntRange(0, 3).Draw(t, "srcip-flag") == 0 {
		c.SrcIP = "10.99.0.9"
	}
	if rapid.IntRange(0, 3).Draw(t, "srcmac-flag") == 0 {
		c.SrcMAC = rapid.SampledFrom([]string{"02:99:00:00:00:09", "02:99:00:00:00:09", "02:99:00:00:00:09", "02:99:00:00:00:00:00:09"}).Draw(t, "srcmac")
	}
	// --srcmac on a MAC-less interface is left open by the statement: do not generate it when a tun device could be chosen
	c.Live = c.Scan == "arp" && rapid.IntRange(0, 3).Draw(t, "live") == 0
	if c.SrcMAC != "" {
		for _, i := range c.Ifaces {
			if i.Kind == "tun" {
				c.SrcMAC = ""
			}
		}
	}
	return c
}

func TestC17Netns(t *testing.T) {
	if _, err := exec.LookPath("unshare"); err != nil {
		t.Fatalf("harness: unshare not available: %v", err)
	}
	_ = filepath.Join
	_ = net.IPv4len
	_ = time.Second
	kit.Run(t, kit.Spec[c17Case]{
		Prop:  "C17",
		Rule:  "the real sx binary inside a fresh network namespace built from a generated configuration: 1..3 veth pairs and optionally a tun device (no hardware address), each with 0..3 IPv4 networks (/8../30, overlapping across interfaces) and/or IPv6 only, 0..3 default routes (via a gateway or device routes) with metrics incl. ties, plus 0..2 more specific routes (0.0.0.0/1, 128.0.0.0/1, /8) that must not count as default routes; scan arp/icmp/tcp/udp (arp also in --live mode, interrupted after several passes) of a /30../32 target attached to some interface or to none, with any subset of --iface/--srcip/--srcmac (--srcmac never together with a tun device). Observed: frames on the far end of every veth (AF_PACKET) and on the tun file descriptor. Oracle (validity predicate computed from the configuration as the kernel reports it): all probes leave through one admissible interface (attached one among the allowed; else --iface; else a lowest-metric default-route device) with an admissible source (own address on the target's network; else first address; flags override), source MAC = interface's or --srcmac, raw-IP framing on a MAC-less device; if no admissible choice exists: an error (exit status or error record) and zero probe frames. non-trivial: >=2 configured interfaces; distinct by case",
		Gen:   c17Gen,
		Check: c17Check,
	})
}
