//go:build verif

package command

import (
	"bufio"
	"context"
	"encoding/json"
	"errors"
	"fmt"
	"io"
	"math/rand"
	"net"
	"os"
	"sort"
	"strings"
	"testing"
	"time"

	kit "verifkit"
	"verifkit/gram"
	"verifkit/wire"

	"github.com/v-byte-cpu/sx/pkg/scan"
	"github.com/v-byte-cpu/sx/pkg/scan/arp"
	"pgregory.net/rapid"
)

// C13: bad target-list entries become one faithful error each, never a probe.

type c13Case struct {
	Stack   string       `json:"stack"` // E1: tcp | app | icmp ; E2: the command (tcp, tcp fin, udp, icmp)
	Pairs   bool         `json:"pairs_mode"`
	Lines   []gram.TLine `json:"lines"`
	Ports   []uint16     `json:"ports,omitempty"` // addresses-x-ports mode: distinct single ports
	Exclude []string     `json:"exclude,omitempty"`
	Cache   string       `json:"cache"` // none (raw-IP mode / application scan) | cache | cache+gw
	Cached  []uint32     `json:"cached,omitempty"`
	Seed    int64        `json:"rand_seed"`
	Stdin   bool         `json:"list_read_from_stdin,omitempty"` // E2 only: -f -
}

func c13MAC(a uint32) net.HardwareAddr {
	return net.HardwareAddr{0x02, 0xaa, byte(a >> 24), byte(a >> 16), byte(a >> 8), byte(a)}
}

var c13GwMAC = net.HardwareAddr{0x02, 0xbb, 0, 0, 0, 1}

// what one line must produce in one pass
type c13Expect struct {
	none   bool // excluded: nothing at all
	probe  bool
	ip     uint32
	port   int // pairs mode: the line's port; else the pass port
	dstMAC string
	causes []string // error expected: acceptable causes
	nomac  bool
}

type c13Model struct {
	c      c13Case
	excl   []gram.Prefix
	cached map[uint32]bool
}

func newC13Model(c c13Case) (*c13Model, error) {
	m := &c13Model{c: c, cached: map[uint32]bool{}}
	for _, l := range c.Exclude {
		p, ok := gram.RefIPv4Target(l)
		if !ok {
			return nil, fmt.Errorf("harness: exclusion line %q", l)
		}
		m.excl = append(m.excl, p)
	}
	for _, a := range c.Cached {
		m.cached[a] = true
	}
	return m, nil
}

func (m *c13Model) expect(i int) c13Expect {
	l := m.c.Lines[i]
	if l.Bad(m.c.Pairs) {
		return c13Expect{causes: l.Causes()}
	}
	if gram.Excluded(m.excl, l.IP) {
		return c13Expect{none: true}
	}
	e := c13Expect{probe: true, ip: l.IP, port: l.Port}
	switch m.c.Cache {
	case "cache", "cache+gw":
		if m.cached[l.IP] {
			e.dstMAC = c13MAC(l.IP).String()
		} else if m.c.Cache == "cache+gw" {
			e.dstMAC = c13GwMAC.String()
		} else {
			return c13Expect{nomac: true, ip: l.IP, causes: []string{gram.CauseNoMAC}}
		}
	}
	return e
}

// ------------------------------------------------------------------ E1: the request stream of the generator stack

type c13Out struct {
	Probe  bool
	IP     uint32
	IPText string
	Port   uint16
	DstMAC string
	Err    string
	Cause  string
	Tamper string // a probe whose other fields were changed
}

func (o c13Out) String() string {
	if o.Probe {
		return fmt.Sprintf("probe %s:%d dstmac=%s", o.IPText, o.Port, o.DstMAC)
	}
	return fmt.Sprintf("error %q", o.Err)
}

func (m *c13Model) matchOne(i int, passPort int, o c13Out) bool {
	e := m.expect(i)
	if e.none {
		return false
	}
	if e.probe {
		port := passPort
		if m.c.Pairs {
			port = e.port
		}
		return o.Probe && o.IP == e.ip && int(o.Port) == port && (e.dstMAC == "" || o.DstMAC == e.dstMAC) && o.Tamper == ""
	}
	if o.Probe && m.c.Lines[i].Kind != "ipv6" {
		return false
	}
	if e.nomac {
		return o.Cause == gram.CauseNoMAC && strings.Contains(o.Err, gram.U32String(e.ip))
	}
	if m.c.Lines[i].Kind == "ipv6" && o.Probe {
		// at generator level an IPv6 entry may still travel as a request for that IPv6 address (the fillers and
		// dialers refuse it later - TestC13Commands checks that no frame results); it must not turn into an IPv4 one
		return o.Tamper == "destination is not an IPv4 address" && strings.Contains(o.IPText, ":")
	}
	if o.Probe {
		return false
	}
	for _, c := range e.causes {
		if c == gram.CauseAny || c == o.Cause {
			return true
		}
	}
	return false
}

// match decides whether outs is a legal output for the lines: passes (one per port; one in pairs / port-less mode),
// each a walk over the lines that may stop right after an offending line.
func (m *c13Model) match(outs []c13Out, ports []int) error {
	n := len(m.c.Lines)
	nextEmit := func(pos int) int {
		for i := pos; i < n; i++ {
			if !m.expect(i).none {
				return i
			}
		}
		return -1
	}
	best, bestMsg := -1, ""
	note := func(o int, format string, a ...interface{}) {
		if o > best {
			best, bestMsg = o, fmt.Sprintf(format, a...)
		}
	}
	var rec func(o, pos, cur int, justErr bool, used uint64) bool
	rec = func(o, pos, cur int, justErr bool, used uint64) bool {
		ended := cur < 0 || justErr || nextEmit(pos) < 0
		if o == len(outs) {
			if !ended {
				i := nextEmit(pos)
				note(o, "output ends although line %d (%s) of the pass for port %d was still to be handled", i+1, m.c.Lines[i], ports[cur])
				return false
			}
			for q := range ports {
				if used&(1<<uint(q)) == 0 && nextEmit(0) >= 0 {
					note(o, "no pass at all for port %d", ports[q])
					return false
				}
			}
			return true
		}
		x := outs[o]
		if cur >= 0 {
			if i := nextEmit(pos); i >= 0 {
				if m.matchOne(i, ports[cur], x) {
					if rec(o+1, i+1, cur, !x.Probe, used) {
						return true
					}
				} else if !ended {
					note(o, "output %d is %s, but line %d (%s) must give %s", o+1, x, i+1, m.c.Lines[i], m.describe(i, ports[cur]))
				}
			}
		}
		if ended {
			tried := false
			for q := range ports {
				if used&(1<<uint(q)) != 0 {
					continue
				}
				if x.Probe && !m.c.Pairs && int(x.Port) != ports[q] {
					continue
				}
				i := nextEmit(0)
				if i < 0 {
					continue
				}
				tried = true
				if m.matchOne(i, ports[q], x) {
					if rec(o+1, i+1, q, !x.Probe, used|1<<uint(q)) {
						return true
					}
				} else {
					note(o, "output %d is %s, but the first entry of a pass (line %d, %s) must give %s", o+1, x, i+1, m.c.Lines[i], m.describe(i, ports[q]))
				}
			}
			if !tried {
				note(o, "surplus output %d: %s (every pass is complete)", o+1, x)
			}
		}
		return false
	}
	if rec(0, 0, -1, false, 0) {
		return nil
	}
	return errors.New(bestMsg)
}

func (m *c13Model) describe(i, passPort int) string {
	e := m.expect(i)
	switch {
	case e.probe:
		p := passPort
		if m.c.Pairs {
			p = e.port
		}
		return fmt.Sprintf("a probe %s:%d dstmac=%s", gram.U32String(e.ip), p, e.dstMAC)
	case e.nomac:
		return fmt.Sprintf("one error 'no destination MAC address for %s'", gram.U32String(e.ip))
	default:
		return fmt.Sprintf("one error stating %v", e.causes)
	}
}

func c13Labels(v *kit.Verdict, c c13Case) {
	v.Label("stack=%s", c.Stack)
	if c.Pairs {
		v.Label("mode=pairs")
	} else {
		v.Label("mode=addresses-x-%dports", len(c.Ports))
	}
	v.Label("cache=%s", c.Cache)
	if len(c.Exclude) > 0 {
		v.Label("exclude")
	}
	firstBad := -1
	for i, l := range c.Lines {
		if l.Bad(c.Pairs) {
			v.Label("kind=%s", l.Kind)
			if firstBad < 0 {
				firstBad = i
			}
		}
	}
	v.NonTrivial = firstBad > 0 && (len(c.Exclude) > 0 || c.Cache != "none")
}

func c13StackCheck(c c13Case) *kit.Verdict {
	v := &kit.Verdict{Units: len(c.Lines)}
	c13Labels(v, c)
	m, err := newC13Model(c)
	if err != nil {
		return v.Failf("%v", err)
	}
	files := &cmdFiles{}
	defer files.cleanup()
	path := files.write("c13", gram.RenderTLines(c.Lines))
	var excl scan.IPContainer
	if len(c.Exclude) > 0 {
		excl, err = parseExcludeFile(func() (io.ReadCloser, error) {
			return io.NopCloser(strings.NewReader(strings.Join(c.Exclude, "\n") + "\n")), nil
		})
		if err != nil {
			return v.Failf("harness: exclusion file refused: %v", err)
		}
	}
	var ranges []*scan.PortRange
	for _, p := range c.Ports {
		ranges = append(ranges, &scan.PortRange{StartPort: p, EndPort: p})
	}
	var reqgen scan.RequestGenerator
	switch c.Stack {
	case "tcp":
		o := &ipPortScanCmdOpts{}
		o.ipFile, o.portRanges, o.excludeIPs = path, ranges, excl
		reqgen = o.newIPPortGenerator()
	case "app":
		o := &genericScanCmdOpts{ipFile: path, portRanges: ranges, excludeIPs: excl}
		reqgen = o.newIPPortGenerator()
	case "icmp":
		// the stack newICMPScanMethod builds (its wiring itself is exercised by TestC13Commands)
		reqgen = scan.NewIPRequestGenerator(scan.NewFileIPGenerator(func() (io.ReadCloser, error) { return os.Open(path) }))
		if excl != nil {
			reqgen = scan.NewFilterIPRequestGenerator(reqgen, excl)
		}
	default:
		return v.Failf("harness: stack %q", c.Stack)
	}
	if c.Cache != "none" {
		cache := arp.NewCache()
		for _, a := range c.Cached {
			b := gram.U32Bytes(a)
			cache.Put(net.IP(b[:]), c13MAC(a))
		}
		var gw net.HardwareAddr
		if c.Cache == "cache+gw" {
			gw = c13GwMAC
		}
		reqgen = arp.NewCacheRequestGenerator(reqgen, gw, cache)
	}
	srcIP, srcMAC := net.IP{10, 250, 0, 1}, net.HardwareAddr{2, 0, 0, 0, 0, 1}
	r := &scan.Range{SrcIP: srcIP, SrcMAC: srcMAC, Ports: ranges}
	rand.Seed(c.Seed)
	ctx, cancel := context.WithCancel(context.Background())
	defer cancel()
	ch, err := reqgen.GenerateRequests(ctx, r)
	if err != nil {
		return v.Failf("generator stack refused the file: %v", err)
	}
	var outs []c13Out
	timeout := time.After(30 * time.Second)
loop:
	for {
		select {
		case q, ok := <-ch:
			if !ok {
				break loop
			}
			if q.Err != nil {
				o := c13Out{Err: q.Err.Error()}
				switch {
				case errors.Is(q.Err, scan.ErrJSON):
					o.Cause = gram.CauseJSON
				case errors.Is(q.Err, scan.ErrIP):
					o.Cause = gram.CauseIP
				case errors.Is(q.Err, scan.ErrPort):
					o.Cause = gram.CausePort
				case errors.Is(q.Err, bufio.ErrTooLong):
					o.Cause = gram.CauseTooLong
				default:
					o.Cause = gram.CauseOf(o.Err)
				}
				outs = append(outs, o)
				continue
			}
			o := c13Out{Probe: true, Port: q.DstPort, IPText: q.DstIP.String(), DstMAC: net.HardwareAddr(q.DstMAC).String()}
			if ip4 := q.DstIP.To4(); ip4 != nil {
				o.IP = gram.BytesU32(ip4)
			} else {
				o.Tamper = "destination is not an IPv4 address"
			}
			if !q.SrcIP.Equal(srcIP) || net.HardwareAddr(q.SrcMAC).String() != srcMAC.String() {
				o.Tamper = fmt.Sprintf("source changed to %v/%v", q.SrcIP, net.HardwareAddr(q.SrcMAC))
			}
			outs = append(outs, o)
			if len(outs) > 4*(len(c.Lines)+1)*(len(c.Ports)+1) {
				return v.Failf("generator stack produces more requests than the file can denote (%d so far)", len(outs))
			}
		case <-timeout:
			return v.Failf("generator stack did not finish within 30s (%d requests so far)", len(outs))
		}
	}
	ports := []int{0}
	if !c.Pairs && len(c.Ports) > 0 {
		ports = nil
		for _, p := range c.Ports {
			ports = append(ports, int(p))
		}
	}
	if err := m.match(outs, ports); err != nil {
		var sb strings.Builder
		for i, o := range outs {
			if i >= 12 {
				fmt.Fprintf(&sb, "  ... %d more\n", len(outs)-i)
				break
			}
			fmt.Fprintf(&sb, "  %d: %s %s\n", i+1, o, o.Tamper)
		}
		return v.Failf("%v\nrequest stream of the %s stack:\n%s", err, c.Stack, sb.String())
	}
	return v
}

// ------------------------------------------------------------------ generation

// addresses of the lines generated so far for the case under construction (reset by c13Gen)
var c13Prev []uint32

func c13GenLine(t *rapid.T, pairs bool, used map[uint32]bool) gram.TLine {
	ip := uint32(kit.UniformInt64(t, "ip", 1<<24, 0xdfffffff))
	for used[ip] {
		ip++
	}
	// target lists name the same host again and again (one line per port): a third of the lines repeat an earlier
	// address, mostly the one of the line before
	if len(c13Prev) > 0 && rapid.IntRange(0, 2).Draw(t, "repeat-address") == 0 {
		ip = c13Prev[len(c13Prev)-1]
		if rapid.IntRange(0, 3).Draw(t, "repeat-which") == 0 {
			ip = c13Prev[kit.Uniform(t, "repeat-idx", len(c13Prev))]
		}
	}
	used[ip] = true
	c13Prev = append(c13Prev, ip)
	port := int(kit.UniformInt64(t, "port", 1, 65535))
	ips := gram.U32String(ip)
	withPort := pairs || rapid.Bool().Draw(t, "stray-port")
	obj := func(ipField string, portField string) string {
		var parts []string
		if ipField != "" {
			parts = append(parts, `"ip":`+ipField)
		}
		if portField != "" {
			parts = append(parts, `"port":`+portField)
		}
		return "{" + strings.Join(parts, ",") + "}"
	}
	pf := ""
	if withPort {
		pf = fmt.Sprint(port)
	}
	kinds := []string{"valid", "valid", "valid", "valid", "valid-extra", "valid-mapped",
		"missing-ip", "null", "empty-object", "ip-null", "wrong-key-case", "wrong-type-ip", "top-level-other",
		"bad-address", "bad-address", "bad-json", "bad-json", "blank", "too-long", "ipv6"}
	if pairs {
		kinds = append(kinds, "missing-port", "port-0", "port-65536", "port-negative", "port-null", "wrong-type-port", "port-huge")
	}
	k := kinds[kit.Uniform(t, "kind", len(kinds))]
	l := gram.TLine{Kind: k, IP: ip, Port: port}
	switch k {
	case "valid":
		l.IP, l.Port, l.Text = ip, port, obj(`"`+ips+`"`, pf)
	case "valid-extra":
		l.IP, l.Port, l.Text = ip, port, strings.TrimSuffix(obj(`"`+ips+`"`, pf), "}")+`,"comment":"x y","n":[1,{"a":null}]}`
	case "valid-mapped":
		l.IP, l.Port, l.Text = ip, port, obj(`"::ffff:`+ips+`"`, pf)
	case "missing-port":
		l.Text = obj(`"`+ips+`"`, "")
	case "port-0":
		l.Text = obj(`"`+ips+`"`, "0")
	case "port-65536":
		l.Text = obj(`"`+ips+`"`, rapid.SampledFrom([]string{"65536", "70000", "131152"}).Draw(t, "bigport"))
	case "port-negative":
		l.Text = obj(`"`+ips+`"`, rapid.SampledFrom([]string{"-1", "-80", "-65456"}).Draw(t, "negport"))
	case "port-null":
		l.Text = obj(`"`+ips+`"`, "null")
	case "port-huge":
		l.Text = obj(`"`+ips+`"`, "99999999999999999999")
	case "wrong-type-port":
		l.Text = obj(`"`+ips+`"`, rapid.SampledFrom([]string{`"80"`, `[80]`, `80.5`, `true`}).Draw(t, "wtport"))
	case "missing-ip":
		l.Text = obj("", fmt.Sprint(port))
	case "null":
		l.Text = "null"
	case "empty-object":
		l.Text = "{}"
	case "ip-null":
		l.Text = obj("null", fmt.Sprint(port))
	case "wrong-key-case":
		l.Text = fmt.Sprintf(`{"IP":"%s","Port":%d}`, ips, port)
	case "wrong-type-ip":
		l.Text = obj(rapid.SampledFrom([]string{"5", `["` + ips + `"]`, "true", `{"a":"` + ips + `"}`}).Draw(t, "wtip"), fmt.Sprint(port))
	case "top-level-other":
		l.Text = rapid.SampledFrom([]string{"5", `"` + ips + `"`, `["` + ips + `"]`, "true"}).Draw(t, "top")
	case "bad-address":
		bad := rapid.SampledFrom([]string{"1.2.3", "300.1.1.1", "", "abc", "1.2.3.4.5", "1.2.3.4/24", "1.2.3.-4", "0x01020304", "example.com"}).Draw(t, "badaddr")
		l.Text = obj(`"`+bad+`"`, fmt.Sprint(port))
	case "bad-json":
		good := obj(`"`+ips+`"`, fmt.Sprint(port))
		l.Text = rapid.SampledFrom([]string{good[:len(good)-1], good[:7], "garbage", strings.ReplaceAll(good, `"`, `'`), good + " trailing", good + good, "{" + good,
			"\xef\xbf\xbd" + good, "\xefAB" + good, "\x00" + good, "\xff\xfe" + good, ";" + good, "\u00a0" + good}).Draw(t, "badjson")
	case "blank":
		l.Text = rapid.SampledFrom([]string{"", " ", "   ", "\t"}).Draw(t, "blank")
	case "too-long":
		l.Text = `{"ip":"` + ips + `","port":` + fmt.Sprint(port) + `,"pad":` // never closed: not valid JSON either
	case "ipv6":
		l.Text = obj(`"`+rapid.SampledFrom([]string{"::1", "2001:db8::1", "fe80::1", "::", "::1.2.3.4", "64:ff9b::102:304"}).Draw(t, "v6")+`"`, fmt.Sprint(port))
	}
	return l
}

func c13Gen(t *rapid.T, stacks []string) c13Case {
	c := c13Case{Stack: rapid.SampledFrom(stacks).Draw(t, "stack"), Seed: rapid.Int64().Draw(t, "seed")}
	base := strings.Fields(c.Stack)[0]
	c.Pairs = base != "icmp" && rapid.Bool().Draw(t, "pairs")
	n := rapid.SampledFrom([]int{1, 2, 3, 4, 6, 9, 14}).Draw(t, "nlines")
	used := map[uint32]bool{}
	c13Prev = nil
	var valid []uint32
	for i := 0; i < n; i++ {
		l := c13GenLine(t, c.Pairs, used)
		// keep the share of offending lines moderate so that several valid entries surround them
		if l.Bad(c.Pairs) && rapid.IntRange(0, 2).Draw(t, "keepbad") == 0 {
			l = gram.TLine{Kind: "valid", IP: l.IP, Port: l.Port}
			l.Text = fmt.Sprintf(`{"ip":"%s","port":%d}`, gram.U32String(l.IP), l.Port)
		}
		if !l.Bad(c.Pairs) {
			valid = append(valid, l.IP)
		}
		c.Lines = append(c.Lines, l)
	}
	if !c.Pairs && base != "icmp" {
		np := rapid.SampledFrom([]int{1, 1, 2, 3}).Draw(t, "nports")
		seen := map[uint16]bool{}
		for len(c.Ports) < np {
			p := uint16(kit.UniformInt64(t, "pport", 1, 65535))
			if !seen[p] {
				seen[p] = true
				c.Ports = append(c.Ports, p)
			}
		}
	}
	if len(valid) > 0 && rapid.IntRange(0, 1).Draw(t, "with-exclude") == 0 {
		ne := rapid.IntRange(1, 2).Draw(t, "nexcl")
		for i := 0; i < ne; i++ {
			a := valid[kit.Uniform(t, "exaddr", len(valid))]
			if rapid.Bool().Draw(t, "exhost") {
				c.Exclude = append(c.Exclude, gram.U32String(a))
			} else {
				c.Exclude = append(c.Exclude, fmt.Sprintf("%s/%d", gram.U32String(a), rapid.SampledFrom([]int{32, 30, 24}).Draw(t, "exbits")))
			}
		}
	}
	c.Cache = "none"
	if base != "app" {
		c.Cache = rapid.SampledFrom([]string{"none", "cache", "cache", "cache+gw"}).Draw(t, "cache")
	}
	if c.Cache != "none" {
		for _, a := range valid {
			if rapid.IntRange(0, 3).Draw(t, "cached") != 0 {
				c.Cached = append(c.Cached, a)
			}
		}
	}
	return c
}

const c13Rule = "JSONL target lists of 1..14 lines (a third of them naming an address of an earlier line again, as one-line-per-port lists do): valid entries (plain, unknown extra fields, ::ffff: spelling) mixed with offending ones at drawn positions (missing ip, missing port, null, {}, ip null, wrong key case, wrong JSON types, top-level scalars/arrays, bad addresses, port 0 / >65535 / negative / null / huge, truncated or garbage JSON, blank lines, a >64 KiB line, IPv6 addresses); pairs mode or addresses x 1..3 distinct ports; optional --exclude hitting valid entries; ARP cache stage absent / present without gateway (uncached valid entries must become 'no destination MAC' errors) / present with gateway. Oracle: reference line model - per pass every entry before an offending line is handled normally, the offending line gives exactly one error stating an acceptable cause and no probe, then the pass stops or goes on as if the line were absent; neighbours unchanged. non-trivial: an offending line that is not first and a decorator stage (exclusion or cache) present; distinct by case"

func TestC13Stack(t *testing.T) {
	kit.Run(t, kit.Spec[c13Case]{
		Prop:  "C13",
		Rule:  "E1, request stream of the generator stack the commands build (ipPortScanCmdOpts.newIPPortGenerator / genericScanCmdOpts.newIPPortGenerator / the icmp stack, plus arp.NewCacheRequestGenerator), in order, with errors.Is on the cause. " + c13Rule,
		Gen:   func(t *rapid.T) c13Case { return c13Gen(t, []string{"tcp", "app", "icmp"}) },
		Check: c13StackCheck,
	})
}

// ------------------------------------------------------------------ E2: full commands

type c13Slot struct {
	line   int
	causes []string
	ip     uint32
	nomac  bool
}

func c13SlotAccepts(s c13Slot, msg string) bool {
	if s.nomac {
		return gram.CauseOf(msg) == gram.CauseNoMAC && strings.Contains(msg, gram.U32String(s.ip))
	}
	return gram.CauseOK(msg, s.causes)
}

// maximum bipartite matching records -> slots
func c13Matching(records []string, slots []c13Slot) int {
	matchSlot := make([]int, len(slots))
	for i := range matchSlot {
		matchSlot[i] = -1
	}
	var try func(r int, seen []bool) bool
	try = func(r int, seen []bool) bool {
		for s := range slots {
			if seen[s] || !c13SlotAccepts(slots[s], records[r]) {
				continue
			}
			seen[s] = true
			if matchSlot[s] < 0 || try(matchSlot[s], seen) {
				matchSlot[s] = r
				return true
			}
		}
		return false
	}
	n := 0
	for r := range records {
		if try(r, make([]bool, len(slots))) {
			n++
		}
	}
	return n
}

func c13CmdCheck(c c13Case) *kit.Verdict {
	v := &kit.Verdict{Units: len(c.Lines)}
	c13Labels(v, c)
	m, err := newC13Model(c)
	if err != nil {
		return v.Failf("%v", err)
	}
	base := strings.Fields(c.Stack)[0]
	files := &cmdFiles{}
	defer files.cleanup()
	args := append([]string{}, strings.Fields(c.Stack)...)
	args = append(args, "-i", "lo", "--srcip", c01SrcIP, "--json") // default exit delay: queued error records are drained before the exit
	if c.Cache != "none" {
		var sb strings.Builder
		for _, a := range c.Cached {
			fmt.Fprintf(&sb, `{"ip":"%s","mac":"%s"}`+"\n", gram.U32String(a), c13MAC(a))
		}
		args = append(args, "--srcmac", c01SrcMAC, "-a", files.write("arpcache", sb.String()))
		if c.Cache == "cache+gw" {
			args = append(args, "--gwmac", c13GwMAC.String())
		}
	}
	if len(c.Ports) > 0 {
		var ps []string
		for _, p := range c.Ports {
			ps = append(ps, fmt.Sprint(p))
		}
		args = append(args, "-p", strings.Join(ps, ","))
	}
	var stdin *string
	if c.Stdin {
		content := gram.RenderTLines(c.Lines)
		stdin = &content
		args = append(args, "-f", "-")
		v.Label("list-from-stdin")
	} else {
		args = append(args, "-f", files.write("targets", gram.RenderTLines(c.Lines)))
	}
	if len(c.Exclude) > 0 {
		args = append(args, "--exclude", files.write("exclude", strings.Join(c.Exclude, "\n")+"\n"))
	}
	res := runCmd(cmdRun{Args: args, Seed: c.Seed, Timeout: 60 * time.Second, Stdin: stdin})
	line := "sx " + strings.Join(args, " ")
	if c.Stdin {
		line += fmt.Sprintf("   (stdin: %q)", clipN(*stdin, 300))
	}
	if res.Hung {
		return v.Failf("%s did not return within 60s\n%s", line, clipN(res.Goroutines, 2500))
	}
	if res.Err != nil && strings.HasPrefix(res.Err.Error(), "PANIC") {
		return v.Failf("%s: %v", line, res.Err)
	}
	if res.Err != nil {
		// refusing the whole list up front is not what the statement describes: entries before the line must be handled
		return v.Failf("%s failed as a whole: %v", line, res.Err)
	}
	// probes on the wire: per port, the multiset of destination addresses
	// (keyed by address, in pairs mode by address and port: lists name the same host once per port)
	got := map[int]map[uint64]int{}
	akey := func(a uint32, port int) uint64 {
		if c.Pairs {
			return uint64(a)<<16 | uint64(port)
		}
		return uint64(a)
	}
	total := 0
	for _, s := range res.Sockets {
		for _, w := range s.Writes {
			f := wire.Decode(w.Frame, !s.VPN)
			if len(f.IPs) == 0 {
				return v.Failf("%s: frame without IPv4 header on the wire: %x", line, w.Frame)
			}
			port := 0
			switch {
			case f.TCP != nil:
				port = int(f.TCP.DstPort)
			case f.UDP != nil:
				port = int(f.UDP.DstPort)
			}
			a := gram.BytesU32(f.IPs[0].Dst[:])
			key := port
			if c.Pairs {
				key = 0
			}
			if got[key] == nil {
				got[key] = map[uint64]int{}
			}
			if c.Pairs {
				// pairs: keep the port in the address key space by checking it below
				e := -1
				for i, l := range c.Lines {
					if !l.Bad(true) && l.IP == a && l.Port == port {
						e = i
					}
				}
				if e < 0 {
					return v.Failf("%s: probe to %s:%d which no valid entry denotes", line, gram.U32String(a), port)
				}
			}
			got[key][akey(a, port)]++
			total++
			if c.Cache != "none" && f.Link {
				want := c13GwMAC.String()
				if m.cached[a] {
					want = c13MAC(a).String()
				} else if c.Cache == "cache" {
					return v.Failf("%s: probe to %s although no MAC is known for it", line, gram.U32String(a))
				}
				if wire.MACString(f.Eth.Dst[:]) != want {
					return v.Failf("%s: probe to %s sent to MAC %s, expected %s", line, gram.U32String(a), wire.MACString(f.Eth.Dst[:]), want)
				}
			}
		}
	}
	// error records
	var records []string
	for _, l := range strings.Split(res.Stderr, "\n") {
		if !strings.Contains(l, `"level":"error"`) {
			continue
		}
		var rec map[string]interface{}
		if json.Unmarshal([]byte(l), &rec) != nil {
			return v.Failf("%s: error line is not JSON: %q", line, l)
		}
		msg, _ := rec["error"].(string)
		records = append(records, msg)
	}
	passes := []int{0}
	if !c.Pairs && base != "icmp" {
		passes = nil
		for _, p := range c.Ports {
			passes = append(passes, int(p))
		}
	}
	n := len(c.Lines)
	stops := []int{}
	for i := 0; i < n; i++ {
		if e := m.expect(i); !e.probe && !e.none {
			stops = append(stops, i+1)
		}
	}
	stops = append(stops, n)
	expectAddrs := func(k int) map[uint64]int {
		out := map[uint64]int{}
		for i := 0; i < k; i++ {
			if e := m.expect(i); e.probe {
				out[akey(e.ip, e.port)]++
			}
		}
		return out
	}
	slotsUpTo := func(k int) []c13Slot {
		var out []c13Slot
		for i := 0; i < k; i++ {
			if e := m.expect(i); !e.probe && !e.none {
				out = append(out, c13Slot{line: i, causes: e.causes, ip: e.ip, nomac: e.nomac})
			}
		}
		return out
	}
	sameSet := func(a, b map[uint64]int) bool {
		if len(a) != len(b) {
			return false
		}
		for k, n := range a {
			if b[k] != n {
				return false
			}
		}
		return true
	}
	var upper, lower []c13Slot
	lowerSeen := map[int]bool{}
	for _, q := range passes {
		g := got[q]
		if g == nil {
			g = map[uint64]int{}
		}
		kmin, kmax := -1, -1
		for _, k := range stops {
			if sameSet(expectAddrs(k), g) {
				if kmin < 0 {
					kmin = k
				}
				kmax = k
			}
		}
		if kmin < 0 {
			var gl []string
			for a, n := range g {
				if c.Pairs {
					gl = append(gl, fmt.Sprintf("%s:%d x%d", gram.U32String(uint32(a>>16)), a&0xffff, n))
				} else {
					gl = append(gl, fmt.Sprintf("%s x%d", gram.U32String(uint32(a)), n))
				}
			}
			sort.Strings(gl)
			return v.Failf("%s\npass for port %d probed %v: not what the entries before any offending line (or the whole list) denote\nlines: %v\nstderr: %s",
				line, q, clipList(gl, 8), c.Lines, clipN(res.Stderr, 500))
		}
		upper = append(upper, slotsUpTo(kmax)...)
		for _, s := range slotsUpTo(kmin) {
			if !lowerSeen[s.line] {
				lowerSeen[s.line] = true
				lower = append(lower, s)
			}
		}
		delete(got, q)
	}
	for q, g := range got {
		if len(g) > 0 {
			return v.Failf("%s: probes to port %d, which is not being scanned", line, q)
		}
	}
	if c13Matching(records, upper) < len(records) {
		return v.Failf("%s\nerror records %q: more than, or other than, one per offending entry per pass (offending lines: %s)", line, clipList(records, 6), c13DescribeSlots(c, upper))
	}
	if len(passes) == 1 {
		// single pass: exactly one record per offending line that was reached
		if len(records) < len(lower) || c13Matching(records, lower) < len(lower) {
			return v.Failf("%s\nerror records %q: an offending entry that was reached has no error record of its own (offending lines reached: %s)", line, clipList(records, 6), c13DescribeSlots(c, lower))
		}
	} else if c13Matching(records, lower) < len(lower) {
		return v.Failf("%s\nerror records %q: an offending entry that was reached has no error record stating its cause (offending lines reached: %s)", line, clipList(records, 6), c13DescribeSlots(c, lower))
	}
	return v
}

func c13DescribeSlots(c c13Case, slots []c13Slot) string {
	var out []string
	seen := map[int]bool{}
	for _, s := range slots {
		if seen[s.line] {
			continue
		}
		seen[s.line] = true
		out = append(out, fmt.Sprintf("line %d %s", s.line+1, c.Lines[s.line]))
	}
	return strings.Join(clipList(out, 6), "; ")
}

func TestC13Commands(t *testing.T) {
	kit.Run(t, kit.Spec[c13Case]{
		Prop: "C13",
		Rule: "E2, full commands (tcp, tcp fin, udp, icmp with -f <file>; in addresses x ports mode also -f - with the list on standard input) on the virtual wire: frames written per port and error records on stderr. Per pass the probed addresses must be those of the valid entries before some offending line (or of the whole list); error records: at most one per offending entry per pass, at least one (stating its cause) per offending entry reached, exactly one in single-pass modes; destination MAC of every frame = own cache entry else gateway. " + c13Rule,
		Gen: func(t *rapid.T) c13Case {
			c := c13Gen(t, []string{"tcp", "tcp fin", "udp", "icmp"})
			// the list may come from standard input (the ARP cache then always comes from a file)
			// (accepted in addresses x ports mode only: elsewhere "-" is a file name)
			c.Stdin = !c.Pairs && len(c.Ports) > 0 && rapid.IntRange(0, 1).Draw(t, "stdin") == 0
			return c
		},
		Check: c13CmdCheck,
	})
}
