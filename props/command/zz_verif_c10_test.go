//go:build verif

package command

import (
	"bufio"
	"bytes"
	"context"
	"crypto/ecdsa"
	"crypto/elliptic"
	crand "crypto/rand"
	"crypto/tls"
	"crypto/x509"
	"crypto/x509/pkix"
	"encoding/json"
	"errors"
	"fmt"
	"io"
	"math/big"
	"net"
	"net/http"
	"reflect"
	"strings"
	"sync"
	"testing"
	"time"

	kit "verifkit"

	"github.com/v-byte-cpu/sx/pkg/scan"
	"github.com/v-byte-cpu/sx/pkg/scan/docker"
	"github.com/v-byte-cpu/sx/pkg/scan/elastic"
	"pgregory.net/rapid"
)

// C10: Elasticsearch / Docker probes - reported iff JSON info was served; time-bounded.

type c10Resp struct {
	Stall      bool   `json:"stall_before_headers,omitempty"` // never answer
	CloseNow   bool   `json:"close_without_answer,omitempty"`
	Reset      bool   `json:"reset_instead_of_close,omitempty"`
	Status     int    `json:"status"`
	Framing    string `json:"framing"`   // length | chunked | close
	Kind       string `json:"body_kind"` // object array string number bool null truncated nonjson empty huge endless
	Body       string `json:"body"`
	MidStall   bool   `json:"stall_in_the_middle_of_the_body,omitempty"`
	APIVersion string `json:"api_version_header,omitempty"`
	Location   string `json:"location_header,omitempty"` // redirects (TestC02Redirect only)
	DelayMs    int    `json:"answer_after_ms,omitempty"` // a slow server: the answer comes after this pause (TestC10SlowServer only)
}

// served completely and as a JSON object?
func (r c10Resp) objectDelivered() bool {
	if r.Stall || r.CloseNow || r.MidStall {
		return false
	}
	return r.Kind == "object" || r.Kind == "huge"
}

func (r c10Resp) hangs() bool { return r.Stall || r.MidStall || r.Kind == "endless" }

type c10Case struct {
	Scan      string  `json:"scan"`      // elastic | docker
	Proto     string  `json:"proto"`     // http | https
	Primary   c10Resp `json:"primary"`   // elastic: GET / ; docker: GET /v*/info
	Second    c10Resp `json:"secondary"` // elastic: GET /_aliases ; docker: GET /v*/version
	Ping      c10Resp `json:"docker_ping"`
	TimeoutMs int     `json:"timeout_ms"`
	IP        [4]byte `json:"ip"`
}

// ---- scripted server

type c10Server struct {
	plain, tls net.Listener
	mu         sync.Mutex
	scripts    map[[4]byte]*c10Script
}

type c10Script struct {
	c       c10Case
	release chan struct{}
	mu      sync.Mutex
	reqs    []string
}

var (
	c10Once sync.Once
	c10Srv  *c10Server
)

func c10GetServer() *c10Server {
	c10Once.Do(func() {
		s := &c10Server{scripts: map[[4]byte]*c10Script{}}
		var err error
		if s.plain, err = net.Listen("tcp4", "0.0.0.0:0"); err != nil {
			panic(err)
		}
		key, _ := ecdsa.GenerateKey(elliptic.P256(), crand.Reader)
		tmpl := &x509.Certificate{SerialNumber: big.NewInt(1), Subject: pkix.Name{CommonName: "verif"}, NotBefore: time.Now().Add(-time.Hour), NotAfter: time.Now().Add(24 * time.Hour),
			KeyUsage: x509.KeyUsageDigitalSignature, ExtKeyUsage: []x509.ExtKeyUsage{x509.ExtKeyUsageServerAuth}, IPAddresses: []net.IP{net.IPv4(127, 0, 0, 1)}}
		der, err := x509.CreateCertificate(crand.Reader, tmpl, tmpl, &key.PublicKey, key)
		if err != nil {
			panic(err)
		}
		cert := tls.Certificate{Certificate: [][]byte{der}, PrivateKey: key}
		raw, err := net.Listen("tcp4", "0.0.0.0:0")
		if err != nil {
			panic(err)
		}
		s.tls = tls.NewListener(raw, &tls.Config{Certificates: []tls.Certificate{cert}})
		go s.loop(s.plain)
		go s.loop(s.tls)
		c10Srv = s
	})
	return c10Srv
}

func (s *c10Server) loop(l net.Listener) {
	for {
		cn, err := l.Accept()
		if err != nil {
			return
		}
		go s.serve(cn)
	}
}

func tcpOf(cn net.Conn) *net.TCPConn {
	switch c := cn.(type) {
	case *net.TCPConn:
		return c
	case *tls.Conn:
		if t, ok := c.NetConn().(*net.TCPConn); ok {
			return t
		}
	}
	return nil
}

func (s *c10Server) serve(cn net.Conn) {
	defer cn.Close()
	var key [4]byte
	copy(key[:], cn.LocalAddr().(*net.TCPAddr).IP.To4())
	s.mu.Lock()
	sc := s.scripts[key]
	s.mu.Unlock()
	if sc == nil {
		return
	}
	cn.SetReadDeadline(time.Now().Add(3 * time.Second))
	br := bufio.NewReader(cn)
	line, err := br.ReadString('\n')
	if err != nil {
		return
	}
	for {
		h, err := br.ReadString('\n')
		if err != nil || h == "\r\n" || h == "\n" {
			break
		}
	}
	f := strings.Fields(line)
	if len(f) < 2 {
		return
	}
	method, path := f[0], f[1]
	sc.mu.Lock()
	sc.reqs = append(sc.reqs, method+" "+path)
	sc.mu.Unlock()
	var r c10Resp
	switch {
	case sc.c.Scan == "elastic" && path == "/":
		r = sc.c.Primary
	case sc.c.Scan == "elastic" && path == "/_aliases":
		r = sc.c.Second
	case sc.c.Scan == "docker" && strings.HasSuffix(path, "/_ping"):
		r = sc.c.Ping
	case sc.c.Scan == "docker" && strings.HasSuffix(path, "/info"):
		r = sc.c.Primary
	case sc.c.Scan == "docker" && strings.HasSuffix(path, "/version"):
		r = sc.c.Second
	default:
		r = c10Resp{Status: 404, Framing: "length", Kind: "empty"}
	}
	wait := func() {
		select {
		case <-sc.release:
		case <-time.After(60 * time.Second):
		}
	}
	if r.Stall {
		wait()
		return
	}
	if r.DelayMs > 0 {
		select {
		case <-sc.release:
			return
		case <-time.After(time.Duration(r.DelayMs) * time.Millisecond):
		}
	}
	if r.CloseNow {
		if t := tcpOf(cn); t != nil && r.Reset {
			t.SetLinger(0)
		}
		return
	}
	cn.SetWriteDeadline(time.Now().Add(70 * time.Second))
	body := []byte(r.Body)
	var hdr bytes.Buffer
	fmt.Fprintf(&hdr, "HTTP/1.1 %d Status\r\n", r.Status)
	ct := "application/json"
	if r.Kind == "nonjson" {
		ct = "text/html"
	}
	fmt.Fprintf(&hdr, "Content-Type: %s\r\n", ct)
	if r.Location != "" {
		fmt.Fprintf(&hdr, "Location: %s\r\n", r.Location)
	}
	if r.APIVersion != "" {
		fmt.Fprintf(&hdr, "API-Version: %s\r\nOSType: linux\r\n", r.APIVersion)
	}
	framing := r.Framing
	if r.Kind == "endless" && framing == "length" {
		framing = "close"
	}
	switch framing {
	case "length":
		fmt.Fprintf(&hdr, "Content-Length: %d\r\n", len(body))
	case "chunked":
		hdr.WriteString("Transfer-Encoding: chunked\r\n")
	default:
		hdr.WriteString("Connection: close\r\n")
	}
	hdr.WriteString("\r\n")
	if _, err := cn.Write(hdr.Bytes()); err != nil {
		return
	}
	if method == "HEAD" {
		return
	}
	write := func(p []byte) bool {
		if framing == "chunked" {
			if _, err := fmt.Fprintf(cn, "%x\r\n", len(p)); err != nil {
				return false
			}
			if _, err := cn.Write(append(append([]byte(nil), p...), '\r', '\n')); err != nil {
				return false
			}
			return true
		}
		_, err := cn.Write(p)
		return err == nil
	}
	if r.Kind == "endless" {
		write([]byte(`{"cluster_name":"`))
		junk := bytes.Repeat([]byte("x"), 2048)
		for {
			select {
			case <-sc.release:
				return
			default:
			}
			if !write(junk) {
				return
			}
			time.Sleep(2 * time.Millisecond)
		}
	}
	if r.MidStall {
		write(body[:len(body)/2])
		wait()
		return
	}
	if len(body) > 0 {
		if len(body) > 8 && framing == "chunked" {
			if !write(body[:len(body)/3]) || !write(body[len(body)/3:]) {
				return
			}
		} else if !write(body) {
			return
		}
	}
	if framing == "chunked" {
		cn.Write([]byte("0\r\n\r\n"))
	}
	if t := tcpOf(cn); t != nil && r.Reset {
		// give the client a moment to read the complete response before the reset
		time.Sleep(20 * time.Millisecond)
		t.SetLinger(0)
	}
}

func jsonEqual(a, b interface{}) bool {
	ja, _ := json.Marshal(a)
	jb, _ := json.Marshal(b)
	var x, y interface{}
	json.Unmarshal(ja, &x)
	json.Unmarshal(jb, &y)
	return reflect.DeepEqual(x, y)
}

func c10Check(c c10Case) *kit.Verdict {
	v := &kit.Verdict{}
	v.Label("scan=%s", c.Scan)
	v.Label("proto=%s", c.Proto)
	v.Label("primary=%s", c.Primary.describe())
	v.Label("secondary=%s", c.Second.describe())
	srv := c10GetServer()
	sc := &c10Script{c: c, release: make(chan struct{})}
	srv.mu.Lock()
	if srv.scripts[c.IP] != nil {
		srv.mu.Unlock()
		return &kit.Verdict{Inconclusive: true}
	}
	srv.scripts[c.IP] = sc
	srv.mu.Unlock()
	defer func() {
		close(sc.release)
		srv.mu.Lock()
		delete(srv.scripts, c.IP)
		srv.mu.Unlock()
	}()
	l := srv.plain
	if c.Proto == "https" {
		l = srv.tls
	}
	port := l.Addr().(*net.TCPAddr).Port
	T := time.Duration(c.TimeoutMs) * time.Millisecond
	var s scan.Scanner
	bound := T + 3*time.Second
	if c.Scan == "elastic" {
		s = elastic.NewScanner(c.Proto, elastic.WithDataTimeout(T))
		bound = 2*T + 3*time.Second
	} else {
		s = docker.NewScanner(c.Proto, docker.WithDataTimeout(T))
	}
	req := &scan.Request{DstIP: net.IP(c.IP[:]), DstPort: uint16(port)}
	type outcome struct {
		res scan.Result
		err error
	}
	och := make(chan outcome, 1)
	jw := startJitterWatch()
	defer jw.Stop()
	start := time.Now()
	go func() {
		res, err := s.Scan(context.Background(), req)
		och <- outcome{res, err}
	}()
	var o outcome
	select {
	case o = <-och:
	case <-time.After(bound + 20*time.Second):
		return v.Failf("%s probe of %s://%v:%d still running %v after its start (timeout per request %v)\nserver: %s", c.Scan, c.Proto, net.IP(c.IP[:]), port, bound+20*time.Second, T, c.describe())
	}
	elapsed := time.Since(start)
	if o.err != nil && o.res != nil {
		// the engine's worker logs the error and drops the result: a record returned together with an error is not reported
		v.Label("result-with-error")
		o.res = nil
	}
	if elapsed > bound {
		return v.Failf("%s probe took %v; configured timeout %v per request (bound incl. 3 s slack: %v)\nserver: %s", c.Scan, elapsed, T, bound, c.describe())
	}
	hostport := fmt.Sprintf("%v:%d", net.IP(c.IP[:]), port)
	expect := c.Primary.objectDelivered()
	if c.Scan == "docker" {
		expect = expect && c.Primary.Status >= 200 && c.Primary.Status < 300 && !c.Ping.hangs()
	}
	if expect && o.res == nil && o.err != nil && (errors.Is(o.err, context.DeadlineExceeded) || strings.Contains(o.err.Error(), "imeout")) {
		// the probe ran into its own timeout although the server does serve the object. On a busy machine that is what happens
		// to any client (1 MiB bodies, 150 ms): no verdict if the machine stalled, if a plain reference client cannot fetch the
		// object within the same timeout either, or if the miss does not repeat
		if jw.Stop() > T/8 {
			return &kit.Verdict{Inconclusive: true}
		}
		path := "/"
		if c.Scan == "docker" {
			path = "/v1.24/info"
		}
		refc := &http.Client{Timeout: T, Transport: &http.Transport{TLSClientConfig: &tls.Config{InsecureSkipVerify: true}, DisableKeepAlives: true}}
		refOK := false
		if resp, err := refc.Get(fmt.Sprintf("%s://%s%s", c.Proto, hostport, path)); err == nil {
			_, err = io.Copy(io.Discard, resp.Body)
			resp.Body.Close()
			refOK = err == nil
		}
		if !refOK {
			return &kit.Verdict{Inconclusive: true}
		}
		for i := 0; i < 2; i++ {
			if res, err := s.Scan(context.Background(), req); res != nil && err == nil {
				return &kit.Verdict{Inconclusive: true}
			}
		}
	}
	if expect && o.res == nil {
		return v.Failf("%s endpoint %s://%s served a JSON object but was not reported (err=%v)\nserver: %s\nrequests seen: %v", c.Scan, c.Proto, hostport, o.err, c.describe(), sc.requests())
	}
	if !expect && o.res != nil {
		return v.Failf("%s endpoint %s://%s was reported although it did not serve a JSON object as info (record %s)\nserver: %s", c.Scan, c.Proto, hostport, clipN(fmt.Sprintf("%+v", o.res), 300), c.describe())
	}
	if !expect && o.err == nil {
		return v.Failf("%s probe returned neither a record nor an error\nserver: %s", c.Scan, c.describe())
	}
	if o.res != nil {
		var served, second interface{}
		json.Unmarshal([]byte(c.Primary.Body), &served)
		if c.Second.objectDelivered() && (c.Scan == "elastic" || (c.Second.Status >= 200 && c.Second.Status < 300)) {
			json.Unmarshal([]byte(c.Second.Body), &second)
		}
		switch r := o.res.(type) {
		case *elastic.ScanResult:
			if r.Host != hostport || r.Proto != c.Proto || r.ScanType != "elastic" {
				return v.Failf("record host/proto %q/%q, probed %s://%s", r.Host, r.Proto, c.Proto, hostport)
			}
			if !jsonEqual(r.Info, served) {
				return v.Failf("record info %s differs from the served object %s", clipN(fmt.Sprint(r.Info), 200), clipN(c.Primary.Body, 200))
			}
			if second != nil && !jsonEqual(r.Indexes, second) {
				return v.Failf("record indexes %s differ from the served object %s", clipN(fmt.Sprint(r.Indexes), 200), clipN(c.Second.Body, 200))
			}
			if second == nil && len(r.Indexes) != 0 {
				return v.Failf("the index request failed, but the record carries indexes %v", r.Indexes)
			}
		case *docker.ScanResult:
			if r.Host != "tcp://"+hostport || r.Proto != c.Proto || r.ScanType != "docker" {
				return v.Failf("record host/proto %q/%q, probed %s tcp://%s", r.Host, r.Proto, c.Proto, hostport)
			}
			m, _ := served.(map[string]interface{})
			if id, _ := m["ID"].(string); r.Info.ID != id {
				return v.Failf("record info.ID %q, served %q", r.Info.ID, id)
			}
			if name, _ := m["Name"].(string); r.Info.Name != name {
				return v.Failf("record info.Name %q, served %q", r.Info.Name, name)
			}
			wantVer := ""
			if sm, ok := second.(map[string]interface{}); ok {
				wantVer, _ = sm["Version"].(string)
			}
			if r.Version.Version != wantVer {
				return v.Failf("record version %q, served %q", r.Version.Version, wantVer)
			}
		default:
			return v.Failf("unexpected result type %T", o.res)
		}
	}
	v.NonTrivial = !(c.Primary.Kind == "object" && !c.Primary.hangs() && !c.Primary.CloseNow && c.Second.Kind == "object" && !c.Second.hangs() && !c.Second.CloseNow)
	return v
}

func (s *c10Script) requests() []string {
	s.mu.Lock()
	defer s.mu.Unlock()
	return append([]string(nil), s.reqs...)
}

func (r c10Resp) describe() string {
	switch {
	case r.Stall:
		return "stall-before-headers"
	case r.CloseNow && r.Reset:
		return "reset"
	case r.CloseNow:
		return "close"
	case r.MidStall:
		return "stall-mid-body"
	}
	return fmt.Sprintf("%d/%s/%s", r.Status, r.Framing, r.Kind)
}

func (c c10Case) describe() string {
	return fmt.Sprintf("ping=%s primary=%s [%s] secondary=%s [%s]", c.Ping.describe(), c.Primary.describe(), clipN(c.Primary.Body, 80), c.Second.describe(), clipN(c.Second.Body, 80))
}

func c10GenObject(t *rapid.T, docker bool, label string) string {
	m := map[string]interface{}{}
	if docker {
		m["ID"] = rapid.StringMatching(`[A-Z0-9]{4}:[A-Z0-9]{4}`).Draw(t, label+"-id")
		m["Name"] = rapid.SampledFrom([]string{"host-1", "döcker \"x\"", "", "a\nb"}).Draw(t, label+"-name")
		m["Version"] = rapid.SampledFrom([]string{"20.10.7", "1.13.1", ""}).Draw(t, label+"-ver")
		m["Containers"] = rapid.IntRange(0, 50).Draw(t, label+"-cont")
	} else {
		m["cluster_name"] = rapid.SampledFrom([]string{"elasticsearch", "es \"prod\"\n", "кластер"}).Draw(t, label+"-cn")
		m["version"] = map[string]interface{}{"number": "7.10.2", "lucene": []interface{}{8, 7.0, nil, true}}
		if rapid.Bool().Draw(t, label+"-idx") {
			m["idx-"+rapid.StringMatching(`[a-z]{1,6}`).Draw(t, label+"-k")] = map[string]interface{}{"aliases": map[string]interface{}{}}
		}
	}
	b, _ := json.Marshal(m)
	return string(b)
}

func c10GenResp(t *rapid.T, docker bool, label string, allowNull bool) c10Resp {
	r := c10Resp{Status: rapid.SampledFrom([]int{200, 200, 200, 201, 400, 401, 403, 404, 500, 503}).Draw(t, label+"-status"),
		Framing: rapid.SampledFrom([]string{"length", "chunked", "close"}).Draw(t, label+"-framing")}
	switch rapid.IntRange(0, 11).Draw(t, label+"-fault") {
	case 0:
		r.Stall = true
		return r
	case 1:
		r.CloseNow = true
		r.Reset = rapid.Bool().Draw(t, label+"-rst")
		return r
	}
	kinds := []string{"object", "object", "object", "object", "array", "string", "number", "bool", "truncated", "nonjson", "empty", "huge", "endless"}
	if allowNull {
		kinds = append(kinds, "null")
	}
	r.Kind = kinds[kit.Uniform(t, label+"-kind", len(kinds))]
	obj := c10GenObject(t, docker, label)
	switch r.Kind {
	case "object":
		r.Body = obj
		// legal white space around the value (pretty printers, proxies): still a JSON object
		r.Body = rapid.SampledFrom([]string{"", "", " ", "\n", "\r\n\t  "}).Draw(t, label+"-lead") + r.Body + rapid.SampledFrom([]string{"", "", "\n", " \r\n"}).Draw(t, label+"-trail")
		r.MidStall = rapid.IntRange(0, 9).Draw(t, label+"-midstall") == 0
	case "array":
		r.Body = "[" + obj + "]"
	case "string":
		r.Body = `"OK"`
	case "number":
		r.Body = rapid.SampledFrom([]string{"42", "404 page not found", "0"}).Draw(t, label+"-num")
	case "bool":
		r.Body = "true"
	case "null":
		r.Body = "null"
	case "truncated":
		r.Body = obj[:len(obj)-1-kit.Uniform(t, label+"-cut", len(obj)-1)]
	case "nonjson":
		r.Body = "<html><body><h1>It works!</h1></body></html>"
	case "huge":
		r.Body = `{"pad":"` + strings.Repeat("x", 1<<20) + `",` + obj[1:]
	}
	r.Reset = rapid.IntRange(0, 9).Draw(t, label+"-rst") == 0 && r.Kind != "huge"
	return r
}

func TestC10Probes(t *testing.T) {
	kit.Run(t, kit.Spec[c10Case]{
		Prop: "C10",
		Rule: "the real elastic.Scanner / docker.Scanner (http and https, self-signed certificate) against a raw-socket scripted server chosen per probed address: per request path (elastic: / and /_aliases; docker: /_ping, /v*/info, /v*/version) an independent script - status 200/201/400/401/403/404/500/503, framing content-length / chunked / close-delimited, body a JSON object (nested, unicode, quotes, with or without surrounding white space) / array / string / number / bool / truncated object / HTML / empty / 1 MiB object / endless, or a fault: stall before headers, stall in the middle of the body, close or reset without answering, reset after the answer. Timeout per request 150..300 ms. Oracle: elastic record <=> GET / delivered a complete JSON object (any status); docker record <=> /info answered 2xx with a complete JSON object and the version negotiation did not hang; host/port/scheme of the record = probed target; info (and indexes / version when served) equal the served objects; a failing secondary request never suppresses the record; no record => an error; elapsed <= timeouts + 3 s. Excluded by construction: redirects/1xx/204/304 and (docker only, known finding) a literal null body. non-trivial: a non-object body or a fault in some request; distinct by case",
		Gen: func(t *rapid.T) c10Case {
			c := c10Case{Scan: rapid.SampledFrom([]string{"elastic", "docker"}).Draw(t, "scan"), Proto: rapid.SampledFrom([]string{"http", "https"}).Draw(t, "proto"),
				TimeoutMs: rapid.SampledFrom([]int{150, 300}).Draw(t, "timeout")}
			c.IP = [4]byte{127, byte(rapid.IntRange(0, 255).Draw(t, "ip1")), byte(rapid.IntRange(0, 255).Draw(t, "ip2")), byte(rapid.IntRange(2, 254).Draw(t, "ip3"))}
			dk := c.Scan == "docker"
			c.Primary = c10GenResp(t, dk, "primary", !dk)
			c.Second = c10GenResp(t, dk, "secondary", true)
			if dk {
				c.Ping = c10Resp{Status: 200, Framing: "length", Kind: "empty", APIVersion: rapid.SampledFrom([]string{"1.41", "1.40", "1.24", ""}).Draw(t, "apiver")}
				switch rapid.IntRange(0, 7).Draw(t, "pingfault") {
				case 0:
					c.Ping.Stall = true
				case 1:
					c.Ping.CloseNow = true
				case 2:
					c.Ping.Status = 404
				case 3:
					c.Ping.Status = 500
				}
			}
			return c
		},
		Check: c10Check,
	})
}

// Known finding (not repaired, see known_findings.json): the docker scan reports an endpoint whose /info body is the
// JSON value null - the moby client decodes it into a zero types.Info without an error. The generator above excludes
// that body for docker by construction; this test keeps confirming the finding (the driver turns its failure into a
// KNOWN-FINDING line) and will pass once sx is repaired.
func TestC10KnownDockerNull(t *testing.T) {
	m := kit.NewManual(t, "C10", "known finding: docker /info answered 200 with the body null (one fixed case per scheme)")
	for i, proto := range []string{"http", "https"} {
		c := c10Case{Scan: "docker", Proto: proto, TimeoutMs: 300, IP: [4]byte{127, 77, 77, byte(10 + i)},
			Ping:    c10Resp{Status: 200, Framing: "length", Kind: "empty", APIVersion: "1.41"},
			Primary: c10Resp{Status: 200, Framing: "length", Kind: "null", Body: "null"},
			Second:  c10Resp{Status: 200, Framing: "length", Kind: "object", Body: `{"Version":"20.10.7"}`}}
		m.Record(t, c, c10Check(c))
	}
}

// ---------------------------------------------------------------- the commands' own wiring of --proto and --timeout

type c10CmdCase struct {
	Scan      string  `json:"scan"`
	Proto     string  `json:"proto"`
	Stall     bool    `json:"primary_request_stalls"`
	TimeoutMs int     `json:"timeout_ms"`
	IP        [4]byte `json:"ip"`
}

func c10CmdCheck(c c10CmdCase) *kit.Verdict {
	v := &kit.Verdict{}
	v.Label("scan=%s/%s", c.Scan, c.Proto)
	srv := c10GetServer()
	cs := c10Case{Scan: c.Scan, Proto: c.Proto, TimeoutMs: c.TimeoutMs, IP: c.IP,
		Ping:    c10Resp{Status: 200, Framing: "length", Kind: "empty", APIVersion: "1.41"},
		Primary: c10Resp{Status: 200, Framing: "length", Kind: "object", Body: `{"ID":"AAAA:BBBB","Name":"n1","cluster_name":"c1"}`, Stall: c.Stall},
		Second:  c10Resp{Status: 200, Framing: "chunked", Kind: "object", Body: `{"Version":"20.10.7","idx":{"aliases":{}}}`}}
	sc := &c10Script{c: cs, release: make(chan struct{})}
	srv.mu.Lock()
	if srv.scripts[c.IP] != nil {
		srv.mu.Unlock()
		return &kit.Verdict{Inconclusive: true}
	}
	srv.scripts[c.IP] = sc
	srv.mu.Unlock()
	defer func() {
		close(sc.release)
		srv.mu.Lock()
		delete(srv.scripts, c.IP)
		srv.mu.Unlock()
	}()
	l := srv.plain
	if c.Proto == "https" {
		l = srv.tls
	}
	port := l.Addr().(*net.TCPAddr).Port
	T := time.Duration(c.TimeoutMs) * time.Millisecond
	args := []string{c.Scan, "--json", "--timeout", T.String(), "--exit-delay", "10ms", "-p", fmt.Sprint(port)}
	if c.Proto == "https" || c.IP[3]%2 == 0 {
		args = append(args, "--proto", c.Proto) // http is the default: given explicitly only half of the time
	}
	args = append(args, net.IP(c.IP[:]).String())
	jw := startJitterWatch()
	res := runCmd(cmdRun{Args: args, Timeout: 60 * time.Second})
	late := jw.Stop()
	line := "sx " + strings.Join(args, " ")
	if res.Hung || res.Err != nil {
		return v.Failf("%s: hung=%v err=%v", line, res.Hung, res.Err)
	}
	if late > 250*time.Millisecond {
		return &kit.Verdict{Inconclusive: true}
	}
	if el, bound := res.Returned.Sub(res.Started), 2*T+10*time.Millisecond+time.Second; el > bound {
		return v.Failf("%s\ntook %v; timeout per request %v (bound incl. exit delay and 1 s slack %v, worst scheduler lateness %v)", line, el, T, bound, late)
	}
	lines := strings.Split(strings.TrimSuffix(res.Stdout, "\n"), "\n")
	if res.Stdout == "" {
		lines = nil
	}
	if c.Stall {
		if len(lines) != 0 {
			return v.Failf("%s: the endpoint never answered but was reported: %s", line, res.Stdout)
		}
		v.NonTrivial = true
		return v
	}
	if len(lines) != 1 {
		return v.Failf("%s: an endpoint serving JSON objects over %s gave %d records\nstderr: %s", line, c.Proto, len(lines), clipN(res.Stderr, 400))
	}
	var rec map[string]interface{}
	if err := json.Unmarshal([]byte(lines[0]), &rec); err != nil {
		return v.Failf("%s: record %q: %v", line, lines[0], err)
	}
	host := fmt.Sprintf("%v:%d", net.IP(c.IP[:]), port)
	if c.Scan == "docker" {
		host = "tcp://" + host
	}
	if rec["proto"] != c.Proto || rec["host"] != host || rec["scan"] != c.Scan {
		return v.Failf("%s: record %s does not carry scan=%s proto=%s host=%s", line, lines[0], c.Scan, c.Proto, host)
	}
	v.NonTrivial = true
	return v
}

func TestC10Command(t *testing.T) {
	kit.Run(t, kit.Spec[c10CmdCase]{
		Prop: "C10",
		Rule: "full elastic / docker commands (--proto http|https given or defaulted, --timeout 120..250 ms) against the scripted server serving JSON objects or stalling the primary request. Oracle: one record with the probed host, port and chosen scheme, or none for the stalled endpoint; the command ends within 2 x timeout + exit delay + 1 s (cases with > 250 ms scheduler lateness are discarded). non-trivial: always; distinct by case",
		Gen: func(t *rapid.T) c10CmdCase {
			return c10CmdCase{Scan: rapid.SampledFrom([]string{"elastic", "docker"}).Draw(t, "scan"), Proto: rapid.SampledFrom([]string{"http", "https"}).Draw(t, "proto"),
				Stall: rapid.IntRange(0, 2).Draw(t, "stall") == 0, TimeoutMs: rapid.SampledFrom([]int{120, 250}).Draw(t, "timeout"),
				IP: [4]byte{127, 88, byte(rapid.IntRange(0, 255).Draw(t, "ip2")), byte(rapid.IntRange(2, 254).Draw(t, "ip3"))}}
		},
		Check: c10CmdCheck,
	})
}

// ---------------------------------------------------------------- C02: a scanned server cannot send the scan elsewhere
//
// The target answers one of the probe's requests with a redirect that names another endpoint (a decoy that is not in
// the target set and would serve a perfectly good JSON object). No connection may be made to the decoy, and nothing
// the decoy serves may be reported as the target's.

type c02RedirCase struct {
	Scan     string  `json:"scan"`
	Proto    string  `json:"proto"`
	Which    string  `json:"redirected_request"` // primary | secondary | ping
	Status   int     `json:"status"`
	Form     string  `json:"location_form"` // same-scheme | other-scheme | scheme-relative | relative
	BodyKind string  `json:"body_of_the_redirect"`
	IP       [4]byte `json:"target_ip"`
	Decoy    [4]byte `json:"decoy_ip"`
}

func c02RedirCheck(c c02RedirCase) *kit.Verdict {
	v := &kit.Verdict{}
	v.Label("scan=%s", c.Scan)
	v.Label("form=%s", c.Form)
	v.Label("which=%s", c.Which)
	srv := c10GetServer()
	plainPort, tlsPort := srv.plain.Addr().(*net.TCPAddr).Port, srv.tls.Addr().(*net.TCPAddr).Port
	port, otherPort, otherProto := plainPort, tlsPort, "https"
	if c.Proto == "https" {
		port, otherPort, otherProto = tlsPort, plainPort, "http"
	}
	decoyIP := net.IP(c.Decoy[:]).String()
	var loc string
	switch c.Form {
	case "same-scheme":
		loc = fmt.Sprintf("%s://%s:%d/", c.Proto, decoyIP, port)
	case "other-scheme":
		loc = fmt.Sprintf("%s://%s:%d/", otherProto, decoyIP, otherPort)
	case "scheme-relative":
		loc = fmt.Sprintf("//%s:%d/", decoyIP, port)
	default:
		loc = "/moved/here"
	}
	targetObj := `{"cluster_name":"target","ID":"TARGET","Name":"target"}`
	decoyObj := `{"cluster_name":"decoy","ID":"DECOY","Name":"decoy","Version":"6.6.6"}`
	okObj := c10Resp{Status: 200, Framing: "length", Kind: "object", Body: targetObj}
	redir := c10Resp{Status: c.Status, Framing: "length", Kind: c.BodyKind, Location: loc}
	switch c.BodyKind {
	case "object":
		redir.Body = targetObj
	case "nonjson":
		redir.Body = "<html>moved</html>"
	}
	tc := c10Case{Scan: c.Scan, Proto: c.Proto, Primary: okObj, Second: okObj, Ping: c10Resp{Status: 200, Framing: "length", Kind: "empty", APIVersion: "1.41"}, TimeoutMs: 400, IP: c.IP}
	switch c.Which {
	case "primary":
		tc.Primary = redir
	case "secondary":
		tc.Second = redir
	default:
		redir.APIVersion = "1.41"
		tc.Ping = redir
	}
	dc := c10Case{Scan: c.Scan, Proto: c.Proto, Primary: c10Resp{Status: 200, Framing: "length", Kind: "object", Body: decoyObj}, Second: c10Resp{Status: 200, Framing: "length", Kind: "object", Body: decoyObj},
		Ping: c10Resp{Status: 200, Framing: "length", Kind: "empty", APIVersion: "1.41"}, IP: c.Decoy}
	tsc := &c10Script{c: tc, release: make(chan struct{})}
	dsc := &c10Script{c: dc, release: make(chan struct{})}
	srv.mu.Lock()
	if srv.scripts[c.IP] != nil || srv.scripts[c.Decoy] != nil || c.IP == c.Decoy {
		srv.mu.Unlock()
		return &kit.Verdict{Inconclusive: true}
	}
	srv.scripts[c.IP], srv.scripts[c.Decoy] = tsc, dsc
	srv.mu.Unlock()
	defer func() {
		close(tsc.release)
		close(dsc.release)
		srv.mu.Lock()
		delete(srv.scripts, c.IP)
		delete(srv.scripts, c.Decoy)
		srv.mu.Unlock()
	}()
	T := 400 * time.Millisecond
	var s scan.Scanner
	if c.Scan == "elastic" {
		s = elastic.NewScanner(c.Proto, elastic.WithDataTimeout(T))
	} else {
		s = docker.NewScanner(c.Proto, docker.WithDataTimeout(T))
	}
	type outcome struct {
		res scan.Result
		err error
	}
	och := make(chan outcome, 1)
	go func() {
		res, err := s.Scan(context.Background(), &scan.Request{DstIP: net.IP(c.IP[:]), DstPort: uint16(port)})
		och <- outcome{res, err}
	}()
	var o outcome
	select {
	case o = <-och:
	case <-time.After(30 * time.Second):
		return v.Failf("%s probe of %v:%d still running after 30 s (redirect %d to %s)", c.Scan, net.IP(c.IP[:]), port, c.Status, loc)
	}
	time.Sleep(5 * time.Millisecond)
	what := fmt.Sprintf("sx %s scan of the single target %s://%v:%d, whose answer to the %s request was '%d Location: %s'", c.Scan, c.Proto, net.IP(c.IP[:]), port, c.Which, c.Status, loc)
	if got := dsc.requests(); len(got) > 0 {
		return v.Failf("%s:\nthe scan connected to %s, which is not in the target set, and sent it %v", what, decoyIP, got)
	}
	if o.res != nil {
		text := fmt.Sprintf("%+v", o.res)
		if r, ok := o.res.(*elastic.ScanResult); ok {
			text = fmt.Sprintf("%+v", *r)
		}
		if r, ok := o.res.(*docker.ScanResult); ok {
			text = fmt.Sprintf("%+v %+v", r.Info, r.Version)
		}
		if strings.Contains(text, "decoy") || strings.Contains(text, "DECOY") || strings.Contains(text, "6.6.6") {
			return v.Failf("%s:\nthe record carries data of the other endpoint: %s", what, clipN(text, 300))
		}
	}
	v.NonTrivial = c.Form != "relative"
	return v
}

func TestC02Redirect(t *testing.T) {
	kit.Run(t, kit.Spec[c02RedirCase]{
		Prop: "C02",
		Rule: "elastic / docker probes (http, https) of one target (a drawn 127.x.y.z) whose scripted server answers one of the probe's requests (primary info, secondary, docker ping) with 301/302/303/307/308 and a Location naming a decoy endpoint on another address (same scheme, other scheme, scheme-relative) or a path on itself, with an empty / HTML / JSON-object body; the decoy would serve a good JSON object. Oracle: the decoy sees no request at all (peer addresses of the scan stay inside the target set) and no record carries the decoy's data. non-trivial: the Location names another host; distinct by case",
		Gen: func(t *rapid.T) c02RedirCase {
			c := c02RedirCase{Scan: rapid.SampledFrom([]string{"elastic", "elastic", "docker"}).Draw(t, "scan"), Proto: rapid.SampledFrom([]string{"http", "https"}).Draw(t, "proto"),
				Status: rapid.SampledFrom([]int{301, 302, 303, 307, 308}).Draw(t, "status"), Form: rapid.SampledFrom([]string{"same-scheme", "same-scheme", "other-scheme", "scheme-relative", "relative"}).Draw(t, "form"),
				BodyKind: rapid.SampledFrom([]string{"empty", "nonjson", "object"}).Draw(t, "body")}
			c.Which = rapid.SampledFrom([]string{"primary", "primary", "secondary"}).Draw(t, "which")
			if c.Scan == "docker" {
				c.Which = rapid.SampledFrom([]string{"primary", "secondary", "ping"}).Draw(t, "which-docker")
			}
			c.IP = [4]byte{127, byte(rapid.IntRange(1, 250).Draw(t, "a")), byte(rapid.IntRange(0, 255).Draw(t, "b")), byte(rapid.IntRange(2, 254).Draw(t, "c"))}
			c.Decoy = [4]byte{127, byte(rapid.IntRange(1, 250).Draw(t, "da")), byte(rapid.IntRange(0, 255).Draw(t, "db")), byte(rapid.IntRange(2, 254).Draw(t, "dc"))}
			return c
		},
		Check: c02RedirCheck,
	})
}

// ---------------------------------------------------------------- C08 / C10: many services probed concurrently by the real scanners
//
// A whole subnet of scripted services, each with its own identity, scanned by the real command with many workers: every
// service is asked exactly once and the record of an address carries that address's own data.

type c08SvcCase struct {
	Scan    string  `json:"scan"`
	Proto   string  `json:"proto"`
	Workers int     `json:"workers"`
	Bits    int     `json:"prefix_bits"`
	Net     [2]byte `json:"net"`                                // 127.a.b.0
	Down    []int   `json:"hosts_not_listening_like_a_service"` // offsets whose server closes the connection at once
	// 403 / empty / null / truncated answers to /_aliases resp. /version: still exactly one record
	NoSecond []int `json:"services_refusing_the_secondary_request"`
}

func c08SvcCheck(c c08SvcCase) *kit.Verdict {
	n := 1 << uint(32-c.Bits)
	v := &kit.Verdict{Units: n}
	v.Label("scan=%s/%s", c.Scan, c.Proto)
	v.Label("workers=%s", bucket(c.Workers, 0, 1, 2, 8, 64))
	srv := c10GetServer()
	l := srv.plain
	if c.Proto == "https" {
		l = srv.tls
	}
	port := l.Addr().(*net.TCPAddr).Port
	down := map[int]bool{}
	for _, d := range c.Down {
		down[d%n] = true
	}
	noSecond := map[int]int{}
	for k, d := range c.NoSecond {
		noSecond[d%n] = k
	}
	scripts := map[int]*c10Script{}
	ident := func(i int) string { return fmt.Sprintf("svc-%d-%d-%d", c.Net[0], c.Net[1], i) }
	srv.mu.Lock()
	for i := 0; i < n; i++ {
		ip := [4]byte{127, c.Net[0], c.Net[1], byte(i)}
		if srv.scripts[ip] != nil {
			srv.mu.Unlock()
			return &kit.Verdict{Inconclusive: true}
		}
	}
	for i := 0; i < n; i++ {
		if down[i] {
			continue
		}
		ip := [4]byte{127, c.Net[0], c.Net[1], byte(i)}
		obj := fmt.Sprintf(`{"ID":"%s","Name":"%s","cluster_name":"%s"}`, ident(i), ident(i), ident(i))
		sc := &c10Script{release: make(chan struct{}), c: c10Case{Scan: c.Scan, Proto: c.Proto, IP: ip,
			Ping:    c10Resp{Status: 200, Framing: "length", Kind: "empty", APIVersion: "1.41"},
			Primary: c10Resp{Status: 200, Framing: "length", Kind: "object", Body: obj},
			Second:  c10Resp{Status: 200, Framing: "length", Kind: "object", Body: fmt.Sprintf(`{"Version":"%s","%s":{"aliases":{}}}`, ident(i), ident(i))}}}
		if k, bad := noSecond[i]; bad {
			sc.c.Second = []c10Resp{{Status: 403, Framing: "length", Kind: "nonjson", Body: "Forbidden"}, {Status: 200, Framing: "length", Kind: "empty"},
				{Status: 200, Framing: "length", Kind: "null", Body: "null"}, {Status: 500, Framing: "close", Kind: "truncated", Body: `{"error":`}}[k%4]
		}
		srv.scripts[ip] = sc
		scripts[i] = sc
	}
	srv.mu.Unlock()
	defer func() {
		srv.mu.Lock()
		for i, sc := range scripts {
			close(sc.release)
			delete(srv.scripts, [4]byte{127, c.Net[0], c.Net[1], byte(i)})
		}
		srv.mu.Unlock()
	}()
	args := []string{c.Scan, "--json", "--timeout", "5s", "--exit-delay", "300ms", "-w", fmt.Sprint(c.Workers), "-p", fmt.Sprint(port), "--proto", c.Proto,
		fmt.Sprintf("127.%d.%d.0/%d", c.Net[0], c.Net[1], c.Bits)}
	res := runCmd(cmdRun{Args: args, Timeout: 90 * time.Second})
	line := "sx " + strings.Join(args, " ")
	if res.Hung || res.Err != nil {
		return v.Failf("%s: hung=%v err=%v", line, res.Hung, res.Err)
	}
	// every service asked for its info exactly once
	for i, sc := range scripts {
		prim := 0
		for _, r := range sc.requests() {
			if (c.Scan == "elastic" && r == "GET /") || (c.Scan == "docker" && strings.HasPrefix(r, "GET ") && strings.HasSuffix(r, "/info")) {
				prim++
			}
		}
		if prim != 1 {
			return v.Failf("%s\nthe service at 127.%d.%d.%d received %d info requests (%v), expected exactly one", line, c.Net[0], c.Net[1], i, prim, sc.requests())
		}
	}
	// one record per service, carrying its own data
	seen := map[string]int{}
	for _, ln := range strings.Split(strings.TrimSuffix(res.Stdout, "\n"), "\n") {
		if ln == "" {
			continue
		}
		var rec struct {
			Host    string                 `json:"host"`
			Info    map[string]interface{} `json:"info"`
			Version map[string]interface{} `json:"version"`
			Indexes map[string]interface{} `json:"indexes"`
		}
		if err := json.Unmarshal([]byte(ln), &rec); err != nil {
			return v.Failf("%s: record %q: %v", line, clipN(ln, 200), err)
		}
		hp := strings.TrimPrefix(rec.Host, "tcp://")
		var a, b, i, p int
		if _, err := fmt.Sscanf(hp, "127.%d.%d.%d:%d", &a, &b, &i, &p); err != nil || a != int(c.Net[0]) || b != int(c.Net[1]) || p != port || scripts[i] == nil {
			return v.Failf("%s: record for %q, which is not one of the services", line, rec.Host)
		}
		seen[hp]++
		id, _ := rec.Info["ID"].(string)
		if c.Scan == "elastic" {
			id, _ = rec.Info["cluster_name"].(string)
		}
		if id != ident(i) {
			return v.Failf("%s\nthe record of %s carries the data of another service: %q, expected %q\n%s", line, rec.Host, id, ident(i), clipN(ln, 300))
		}
		if _, bad := noSecond[i]; bad {
			// the secondary request failed: the record is still there (checked below), without secondary data of anybody else
			if ver, _ := rec.Version["Version"].(string); ver != "" || len(rec.Indexes) != 0 {
				return v.Failf("%s\nthe record of %s carries secondary data although its secondary request was refused: %s", line, rec.Host, clipN(ln, 300))
			}
		} else if c.Scan == "docker" {
			if ver, _ := rec.Version["Version"].(string); ver != ident(i) {
				return v.Failf("%s\nthe record of %s carries version %q, expected %q", line, rec.Host, ver, ident(i))
			}
		} else if _, ok := rec.Indexes[ident(i)]; !ok {
			return v.Failf("%s\nthe record of %s carries the indexes of another service: %v", line, rec.Host, rec.Indexes)
		}
	}
	for i := range scripts {
		hp := fmt.Sprintf("127.%d.%d.%d:%d", c.Net[0], c.Net[1], i, port)
		if seen[hp] != 1 {
			return v.Failf("%s\n%d records for the service at %s, expected exactly one\nstderr: %s", line, seen[hp], hp, clipN(res.Stderr, 500))
		}
	}
	// each failed probe (an address that closes the connection at once): exactly one error record on stderr
	for i := 0; i < n; i++ {
		if !down[i] {
			continue
		}
		hp := fmt.Sprintf("127.%d.%d.%d:%d", c.Net[0], c.Net[1], i, port)
		cnt := 0
		for _, ln := range strings.Split(res.Stderr, "\n") {
			if strings.Contains(ln, `"level":"error"`) && strings.Contains(ln, hp) {
				cnt++
			}
		}
		if cnt != 1 {
			return v.Failf("%s\nthe probe of %s failed (the peer closed the connection at once): %d error records name it on stderr, expected exactly one\nstderr: %s", line, hp, cnt, clipN(res.Stderr, 600))
		}
		v.Label("failed-probes")
	}
	v.NonTrivial = len(scripts) >= 4 && c.Workers >= 2
	return v
}

func TestC08Services(t *testing.T) {
	kit.Run(t, kit.Spec[c08SvcCase]{
		Prop: "C08",
		Rule: "full elastic / docker commands (http, https) over a /29../26 of loopback addresses, each address a scripted service with its own identity (ID, name, cluster, version, index names) or a port that closes the connection at once; some services refuse the secondary request (403 text, empty, null, truncated); workers 1..200. Oracle: every service received exactly one info request, stdout has exactly one record per service, the record of an address carries that address's own info and secondary data (nothing attributed to another target), and every address that closed the connection has exactly one error record on stderr. non-trivial: >=4 services and >=2 workers; distinct by case",
		Gen: func(t *rapid.T) c08SvcCase {
			c := c08SvcCase{Scan: rapid.SampledFrom([]string{"docker", "elastic"}).Draw(t, "scan"), Proto: rapid.SampledFrom([]string{"http", "http", "https"}).Draw(t, "proto"),
				Workers: rapid.SampledFrom([]int{1, 2, 8, 24, 200}).Draw(t, "workers"), Bits: rapid.IntRange(26, 29).Draw(t, "bits"),
				Net: [2]byte{byte(rapid.IntRange(100, 250).Draw(t, "a")), byte(rapid.IntRange(0, 255).Draw(t, "b"))}}
			for k := rapid.IntRange(0, 3).Draw(t, "ndown"); k > 0; k-- {
				c.Down = append(c.Down, rapid.IntRange(0, 63).Draw(t, "down"))
			}
			for k := rapid.IntRange(0, 4).Draw(t, "nnosecond"); k > 0; k-- {
				c.NoSecond = append(c.NoSecond, rapid.IntRange(0, 63).Draw(t, "nosecond"))
			}
			return c
		},
		Check: c08SvcCheck,
	})
}

// ---------------------------------------------------------------- C12: Ctrl-C while an http probe waits at any of its requests
//
// One scripted service that answers every request of a probe except one, at which it stalls; the real SIGINT is sent when
// the server sees that request. Whatever request the probe is waiting in, the command ends promptly - it does not sit out the
// request timeout (20 s here).

type c12SvcCase struct {
	Scan    string  `json:"scan"`
	Proto   string  `json:"proto"`
	StallAt string  `json:"request_that_stalls"` // primary | secondary | ping
	MidBody bool    `json:"stall_in_the_middle_of_the_body"`
	Workers int     `json:"workers"`
	IP      [4]byte `json:"ip"`
}

func c12SvcCheck(c c12SvcCase) *kit.Verdict {
	v := &kit.Verdict{Units: 1}
	v.Label("scan=%s/%s", c.Scan, c.Proto)
	v.Label("stall-at=%s", c.StallAt)
	srv := c10GetServer()
	obj := `{"ID":"X","Name":"x","cluster_name":"x"}`
	ok := c10Resp{Status: 200, Framing: "length", Kind: "object", Body: obj}
	stall := c10Resp{Status: 200, Framing: "length", Kind: "object", Body: obj, Stall: !c.MidBody, MidStall: c.MidBody}
	cs := c10Case{Scan: c.Scan, Proto: c.Proto, IP: c.IP, Primary: ok, Second: ok, Ping: c10Resp{Status: 200, Framing: "length", Kind: "empty", APIVersion: "1.41"}}
	var wantReq func(string) bool
	switch c.StallAt {
	case "primary":
		cs.Primary = stall
		wantReq = func(r string) bool { return r == "GET /" || strings.HasSuffix(r, "/info") }
	case "secondary":
		cs.Second = stall
		wantReq = func(r string) bool { return strings.HasSuffix(r, "/_aliases") || strings.HasSuffix(r, "/version") }
	default:
		cs.Ping = c10Resp{Stall: true}
		wantReq = func(r string) bool { return strings.HasSuffix(r, "/_ping") }
	}
	sc := &c10Script{c: cs, release: make(chan struct{})}
	srv.mu.Lock()
	if srv.scripts[c.IP] != nil {
		srv.mu.Unlock()
		return &kit.Verdict{Inconclusive: true}
	}
	srv.scripts[c.IP] = sc
	srv.mu.Unlock()
	defer func() {
		close(sc.release)
		srv.mu.Lock()
		delete(srv.scripts, c.IP)
		srv.mu.Unlock()
	}()
	l := srv.plain
	if c.Proto == "https" {
		l = srv.tls
	}
	port := l.Addr().(*net.TCPAddr).Port
	// interrupt as soon as the server has seen the request that stalls
	stop := make(chan struct{})
	var sentAt time.Time
	var smu sync.Mutex
	go func() {
		for {
			select {
			case <-stop:
				return
			default:
			}
			for _, r := range sc.requests() {
				if wantReq(r) {
					time.Sleep(10 * time.Millisecond)
					smu.Lock()
					sentAt = time.Now()
					smu.Unlock()
					sendSIGINT()
					return
				}
			}
			time.Sleep(2 * time.Millisecond)
		}
	}()
	args := []string{c.Scan, "--json", "--timeout", "20s", "--exit-delay", "50ms", "-w", fmt.Sprint(c.Workers), "-p", fmt.Sprint(port), "--proto", c.Proto, net.IP(c.IP[:]).String()}
	res := runCmd(cmdRun{Args: args, Timeout: c12Limit})
	close(stop)
	line := "sx " + strings.Join(args, " ")
	if res.Hung {
		return v.Failf("%s\nSIGINT while the probe was waiting for the answer to its %s request (timeout 20 s): Execute() had not returned %v later\n%s", line, c.StallAt, c12Limit, clipN(res.Goroutines, 3000))
	}
	smu.Lock()
	at := sentAt
	smu.Unlock()
	if at.IsZero() {
		// the probe never made that request (docker without a ping, an earlier failure): nothing to judge
		return &kit.Verdict{Inconclusive: true}
	}
	if took := res.Returned.Sub(at); took > 8*time.Second {
		return v.Failf("%s\nSIGINT while the probe was waiting for the answer to its %s request: the command needed %v to end (the request timeout is 20 s; it must not be sat out)", line, c.StallAt, took)
	}
	if res.Err != nil && strings.HasPrefix(res.Err.Error(), "PANIC") {
		return v.Failf("%s: %v", line, res.Err)
	}
	if res.LateStdout != "" || res.LateStderr != "" {
		return v.Failf("%s: output after the return: %q %q", line, clipN(res.LateStdout, 200), clipN(res.LateStderr, 200))
	}
	if err := completeJSONLines(res.Stdout); err != nil {
		return v.Failf("%s: %v", line, err)
	}
	v.NonTrivial = true
	return v
}

func TestC12Services(t *testing.T) {
	kit.Run(t, kit.Spec[c12SvcCase]{
		Prop: "C12",
		Rule: "full elastic / docker commands (http, https; request timeout 20 s) against one scripted service that answers every request of the probe except a drawn one (primary info, secondary, docker ping), where it stalls before the headers or in the middle of the body; the real SIGINT is sent when the server has seen that request. Oracle: Execute() returns within 8 s of the interrupt (the timeout is not sat out), no panic, nothing after the return, complete lines. non-trivial: always; distinct by case",
		Gen: func(t *rapid.T) c12SvcCase {
			c := c12SvcCase{Scan: rapid.SampledFrom([]string{"elastic", "docker"}).Draw(t, "scan"), Proto: rapid.SampledFrom([]string{"http", "https"}).Draw(t, "proto"),
				StallAt: rapid.SampledFrom([]string{"primary", "secondary", "secondary"}).Draw(t, "stall-at"), MidBody: rapid.Bool().Draw(t, "mid-body"),
				Workers: rapid.SampledFrom([]int{1, 8, 100}).Draw(t, "workers"),
				IP:      [4]byte{127, 77, byte(rapid.IntRange(0, 255).Draw(t, "ip2")), byte(rapid.IntRange(2, 254).Draw(t, "ip3"))}}
			if c.Scan == "docker" && rapid.IntRange(0, 2).Draw(t, "ping") == 0 {
				c.StallAt, c.MidBody = "ping", false
			}
			return c
		},
		Check: c12SvcCheck,
	})
}

// A slow but working service and a generous --timeout: the configured timeout is the limit, not some smaller built-in one.
// (The built-in defaults are 5 s for elastic and 10 s for docker; the service answers later than that.) C10_SLOW selects the scan.
func TestC10SlowServer(t *testing.T) {
	scanKind := []string{"elastic", "docker"}[kit.EnvInt("C10_SLOW", 0)%2]
	kit.Run(t, kit.Spec[c10Case]{
		Prop: "C10",
		Rule: "a service that serves its JSON object correctly but only 6..7 s (elastic) / 11..12 s (docker) after the request - later than the scans' built-in default timeouts - probed with a timeout of 20..30 s per request, http and https. Oracle: as TestC10Probes (the endpoint is reported, the record carries the probed target, the probe ends within the configured bound). non-trivial: always; distinct by case",
		Gen: func(t *rapid.T) c10Case {
			c := c10Case{Scan: scanKind, Proto: rapid.SampledFrom([]string{"http", "https"}).Draw(t, "proto"), TimeoutMs: rapid.IntRange(20000, 30000).Draw(t, "timeout-ms")}
			c.IP = [4]byte{127, byte(rapid.IntRange(1, 250).Draw(t, "ip1")), byte(rapid.IntRange(0, 250).Draw(t, "ip2")), byte(rapid.IntRange(2, 250).Draw(t, "ip3"))}
			obj := c10Resp{Status: 200, Framing: "length", Kind: "object", Body: `{"ID":"SLOW:1","Name":"slow","cluster_name":"c","version":{"number":"7.1"}}`}
			c.Primary, c.Second, c.Ping = obj, obj, c10Resp{Status: 200, Framing: "length", Kind: "empty", APIVersion: "1.41"}
			if scanKind == "elastic" {
				c.Primary.DelayMs = rapid.IntRange(6000, 7000).Draw(t, "delay-ms")
			} else {
				c.Primary.DelayMs = rapid.IntRange(11000, 12000).Draw(t, "delay-ms")
			}
			return c
		},
		Check: c10Check,
	})
}
