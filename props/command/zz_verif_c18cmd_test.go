//go:build verif

package command

import (
	"bytes"
	"fmt"
	"strings"
	"testing"
	"time"

	kit "verifkit"
	"verifkit/gram"
	"verifkit/wire"

	"pgregory.net/rapid"
)

// C18 at command level: what a full command does with an option string agrees with the reference verdict on that string
// (refused => the command fails before anything is sent; accepted => the frames carry exactly the denoted value).

type c18CmdCase struct {
	Opt    string `json:"option"` // ports | ports-file | rate | tcp-flags | ip-flags | payload | exclude
	Input  string `json:"input"`
	Origin string `json:"origin"`
}

func c18CmdCheck(c c18CmdCase) *kit.Verdict {
	v := &kit.Verdict{NonTrivial: true, Units: 1}
	v.Label("option=%s origin=%s", c.Opt, c.Origin)
	files := &cmdFiles{}
	defer files.cleanup()
	common := []string{"-i", "lo", "--srcip", c01SrcIP, "--json", "--exit-delay", "5ms"}
	var args []string
	accept := false
	var judge func(res *cmdResult) error
	decodeAll := func(res *cmdResult) []*wire.Frame {
		var out []*wire.Frame
		for _, w := range res.Writes {
			out = append(out, wire.Decode(w.Frame, false))
		}
		return out
	}
	switch c.Opt {
	case "ports", "ports-file":
		var ref []gram.PortRange
		if c.Opt == "ports" {
			ref, accept = gram.RefPortList(c.Input)
			args = append([]string{"tcp"}, common...)
			args = append(args, "--ports="+c.Input, "10.9.8.7")
		} else {
			ref, accept = gram.RefPortsFile(c.Input)
			args = append([]string{"udp"}, common...)
			args = append(args, "--ports-file", files.write("ports", c.Input), "10.9.8.7")
		}
		total, inverted := 0, false
		for _, r := range ref {
			if r.Start > r.End {
				inverted = true
			} else {
				total += int(r.End-r.Start) + 1
			}
		}
		if accept && (total > 4000 || len(ref) == 0) {
			return v // too many probes for a command-level run, or an empty list (no ports: another mode); parser level covers it
		}
		judge = func(res *cmdResult) error {
			if inverted {
				if len(res.Writes) != 0 && len(ref) <= 200 {
					return fmt.Errorf("a port range with start > end denotes no valid specification, but %d probes were sent", len(res.Writes))
				}
				return nil
			}
			want, got := map[uint16]int{}, map[uint16]int{}
			for _, r := range ref {
				for p := int(r.Start); p <= int(r.End); p++ {
					want[uint16(p)]++
				}
			}
			for _, f := range decodeAll(res) {
				switch {
				case f.TCP != nil:
					got[f.TCP.DstPort]++
				case f.UDP != nil:
					got[f.UDP.DstPort]++
				default:
					return fmt.Errorf("a frame without transport header was written")
				}
			}
			for p, n := range want {
				if got[p] != n {
					return fmt.Errorf("port %d probed %d times, the string denotes it %d times", p, got[p], n)
				}
			}
			for p, n := range got {
				if want[p] != n {
					return fmt.Errorf("port %d probed %d times, the string denotes it %d times", p, n, want[p])
				}
			}
			return nil
		}
	case "rate":
		_, _, accept = gram.RefRate(c.Input)
		args = append([]string{"icmp"}, common...)
		args = append(args, "--rate="+c.Input, "10.9.8.7")
		judge = func(res *cmdResult) error {
			if len(res.Writes) != 1 {
				return fmt.Errorf("%d probes written, expected 1", len(res.Writes))
			}
			return nil
		}
	case "tcp-flags":
		var bits uint16
		bits, accept = gram.RefTCPFlags(c.Input)
		args = append([]string{"tcp"}, common...)
		args = append(args, "--flags="+c.Input, "-p", "80", "10.9.8.7")
		judge = func(res *cmdResult) error {
			fs := decodeAll(res)
			if len(fs) != 1 || fs[0].TCP == nil {
				return fmt.Errorf("%d frames written, expected one TCP probe", len(fs))
			}
			want := bits
			if c.Input == "" {
				want = wire.SYN // no --flags value: the default SYN scan
			}
			// gram numbers the bits FIN..NS = 0..8 exactly like the TCP header's flag bits
			if fs[0].TCP.Flags != want {
				return fmt.Errorf("probe carries TCP flags %09b, the string denotes %09b", fs[0].TCP.Flags, want)
			}
			return nil
		}
	case "ip-flags":
		var bits uint8
		bits, accept = gram.RefIPFlags(c.Input)
		args = append([]string{"icmp"}, common...)
		args = append(args, "--ipflags="+c.Input, "10.9.8.7")
		judge = func(res *cmdResult) error {
			fs := decodeAll(res)
			if len(fs) != 1 || len(fs[0].IPs) != 1 {
				return fmt.Errorf("%d frames written, expected one probe", len(fs))
			}
			if fs[0].IPs[0].Flags != bits {
				return fmt.Errorf("probe carries IP flags %03b, the string denotes %03b", fs[0].IPs[0].Flags, bits)
			}
			return nil
		}
	case "payload":
		ref, tri := gram.RefPayload(c.Input)
		if tri == gram.Undecided || len(ref) > 1400 {
			return v
		}
		accept = tri == gram.Accept
		args = append([]string{"udp"}, common...)
		args = append(args, "--payload="+c.Input, "-p", "53", "10.9.8.7")
		judge = func(res *cmdResult) error {
			if len(res.Writes) != 1 {
				return fmt.Errorf("%d frames written, expected 1", len(res.Writes))
			}
			f := wire.Decode(res.Writes[0].Frame, false)
			if f.UDP == nil {
				return fmt.Errorf("no UDP header (%s)", f.Stop)
			}
			if !bytes.Equal(f.Payload, ref) {
				return fmt.Errorf("UDP payload on the wire %x, the string denotes %x", f.Payload, ref)
			}
			return nil
		}
	case "exclude":
		ref, allV4 := gram.RefExcludeFile(c.Input)
		accept = allV4
		args = append([]string{"icmp"}, common...)
		args = append(args, "--exclude", files.write("exclude", c.Input), "10.9.8.0/28")
		judge = func(res *cmdResult) error {
			got := map[uint32]int{}
			for _, f := range decodeAll(res) {
				if len(f.IPs) == 0 {
					return fmt.Errorf("frame without IPv4 header")
				}
				got[gram.BytesU32(f.IPs[0].Dst[:])]++
			}
			for i := uint32(0); i < 16; i++ {
				a := uint32(10<<24|9<<16|8<<8) + i
				want := 1
				if gram.Excluded(ref, a) {
					want = 0
				}
				if got[a] != want {
					return fmt.Errorf("%s probed %d times, expected %d", gram.U32String(a), got[a], want)
				}
			}
			return nil
		}
	default:
		return v.Failf("harness: option %q", c.Opt)
	}
	if c.Input == "" && (c.Opt == "ports" || c.Opt == "rate" || c.Opt == "payload") {
		return v // an empty option value means "option not given" on the command line: not a string for the parser
	}
	if strings.ContainsRune(c.Input, 0) && (c.Opt != "ports-file" && c.Opt != "exclude") {
		return v // a NUL cannot travel in an argv string
	}
	res := runCmd(cmdRun{Args: args, Timeout: 60 * time.Second})
	line := "sx " + clipN(strings.Join(args, " "), 300)
	if res.Hung {
		return v.Failf("%s did not return\n%s", line, clipN(res.Goroutines, 2000))
	}
	if res.Err != nil && strings.HasPrefix(res.Err.Error(), "PANIC") {
		return v.Failf("%s: %v", line, res.Err)
	}
	if !accept {
		v.Label("reference=refuse")
		if c.Opt == "exclude" && res.Err == nil {
			// a non-IPv4 line was tolerated: then the IPv4 lines alone must describe the result
			if err := judge(res); err != nil {
				return v.Failf("%s\nexclusion file with a non-IPv4 line accepted, and then: %v\nfile: %q", line, err, clip(c.Input))
			}
			return v
		}
		if res.Err == nil {
			return v.Failf("%s\nthe %s string %q is not in the reference language but the command ran (%d frames written)", line, c.Opt, clip(c.Input), len(res.Writes))
		}
		if len(res.Writes) > 0 {
			return v.Failf("%s\nrefused with %v, but %d frames had been written", line, res.Err, len(res.Writes))
		}
		return v
	}
	v.Label("reference=accept")
	if res.Err != nil && c.Origin != "canonical" {
		// parsing is allowed to refuse what it does not understand (the statement: fails or returns exactly the value);
		// only canonical renderings must be accepted. What matters: nothing was sent
		if len(res.Writes) > 0 {
			return v.Failf("%s\nrefused with %v, but %d frames had been written", line, res.Err, len(res.Writes))
		}
		v.Label("refused-although-reference-accepts")
		return v
	}
	if res.Err != nil {
		return v.Failf("%s\nthe %s string %q is valid but the command failed: %v", line, c.Opt, clip(c.Input), res.Err)
	}
	if err := judge(res); err != nil {
		return v.Failf("%s\n%s %q: %v", line, c.Opt, clip(c.Input), err)
	}
	return v
}

func TestC18Commands(t *testing.T) {
	kit.Run(t, kit.Spec[c18CmdCase]{
		Prop: "C18",
		Rule: "option strings (canonical renderings, mutated renderings, arbitrary strings - the generators of the parser-level tests) given to full commands on the virtual wire in raw-IP mode: --ports / --ports-file (tcp, udp), --rate (icmp), --flags (tcp), --ipflags (icmp), --payload (udp), --exclude (icmp over a /28). Oracle: reference refuses => the command fails and writes no frame; reference accepts => the frames carry exactly the denoted value (a non-canonical string may also be refused, then nothing is sent; canonical renderings must be accepted) (ports probed as a multiset, TCP flag bits, IP flag bits, payload bytes, addresses minus exclusions). non-trivial: always; distinct by case",
		Gen: func(t *rapid.T) c18CmdCase {
			c := c18CmdCase{Opt: rapid.SampledFrom([]string{"ports", "ports-file", "rate", "tcp-flags", "ip-flags", "payload", "exclude"}).Draw(t, "option")}
			origin := rapid.SampledFrom([]string{"canonical", "mutated", "mutated", "arbitrary"}).Draw(t, "origin")
			c.Origin = origin
			var canon string
			alphabet := c18NumAlphabet
			switch c.Opt {
			case "ports", "ports-file":
				rs := c18GenRanges(t)
				if len(rs) > 9 {
					rs = rs[:9]
				}
				for i := range rs { // keep command-level runs small
					if int(rs[i].End)-int(rs[i].Start) > 300 {
						rs[i].End = rs[i].Start + uint16(rapid.IntRange(0, 300).Draw(t, "w"))
						if rs[i].End < rs[i].Start {
							rs[i].End = 65535
						}
					}
				}
				if c.Opt == "ports" {
					canon = c18RenderList(t, rs)
				} else {
					canon = c18RenderPortsFile(t, rs)
				}
			case "rate":
				canon = fmt.Sprintf("%d/%d%s", rapid.SampledFrom([]int{0, 1, 50, 1000}).Draw(t, "count"), rapid.IntRange(1, 500).Draw(t, "n"), rapid.SampledFrom(c18Units).Draw(t, "unit"))
			case "tcp-flags":
				canon = c18RenderFlags(gram.TCPFlagNames, uint16(kit.Uniform(t, "bits", 512)), rapid.Permutation([]int{0, 1, 2, 3, 4, 5, 6, 7, 8}).Draw(t, "order"), rapid.Uint64().Draw(t, "case"))
				alphabet = []rune("synackfinrstpshurgececwrns, ,,SYN\tſK")
			case "ip-flags":
				canon = c18RenderFlags(c18IPFlagNames, uint16(kit.Uniform(t, "bits", 8)), rapid.Permutation([]int{0, 1, 2}).Draw(t, "order"), rapid.Uint64().Draw(t, "case"))
				alphabet = []rune("dfevilmf, ,,DF\tſ")
			case "payload":
				n := rapid.SampledFrom([]int{0, 1, 2, 16, 255}).Draw(t, "len")
				canon = gram.RenderPayload(rapid.SliceOfN(rapid.Byte(), n, n).Draw(t, "bytes"), rapid.IntRange(0, 4).Draw(t, "mode"))
				alphabet = []rune(`\x0123456789abcdefABCDEFuUntr"'` + " é")
			case "exclude":
				canon = c18RenderExclude(t, c18GenPrefixes(t, 4))
				if rapid.Bool().Draw(t, "hit") {
					canon += fmt.Sprintf("10.9.8.%d/%d\n", rapid.IntRange(0, 15).Draw(t, "host"), rapid.SampledFrom([]int{32, 31, 30, 29}).Draw(t, "bits"))
				}
				alphabet = c18IPAlphabet
			}
			switch origin {
			case "canonical":
				c.Input = canon
			case "mutated":
				c.Input = c18Mutate(t, canon, alphabet)
			default:
				c.Input = c18Arbitrary(t, alphabet)
			}
			return c
		},
		Check: c18CmdCheck,
	})
}
