//go:build verif

package command

import (
	"bytes"
	"encoding/json"
	"fmt"
	"sort"
	"strings"
	"sync"
	"testing"
	"time"

	kit "verifkit"
	"verifkit/gen"
	"verifkit/gram"
	"verifkit/shape"
	"verifkit/vwire"
	"verifkit/wire"

	"pgregory.net/rapid"
)

// C03: detection exactness - a frame is reported iff it is reply-shaped.

type c03Event struct {
	AtWrite int    `json:"after_write"` // 0: right after the filter of the first socket is installed
	Frame   []byte `json:"frame"`
	Note    string `json:"note"`
	DelayMs int    `json:"delay_ms,omitempty"` // real sockets only: the frame arrives this long after its trigger
}

type c03Case struct {
	Cmd    string     `json:"command"`
	Spec   gram.Spec  `json:"spec"`
	VPN    bool       `json:"vpn"`
	Events []c03Event `json:"traffic"`
	Seed   int64      `json:"rand_seed"`
	ExitMs int        `json:"exit_delay_ms"`
}

func scanKind(cmd string) string {
	f := strings.Fields(cmd)
	switch f[0] {
	case "arp", "icmp", "udp":
		return f[0]
	}
	if len(f) == 1 || f[1] == "syn" {
		return "tcpsyn"
	}
	if strings.HasPrefix(f[1], "--") {
		return "tcpflags"
	}
	return "tcp" + f[1]
}

func chunkRanges(all []gram.PortRange, idx int) []gram.PortRange {
	if len(all) == 0 {
		return nil
	}
	lo, hi := idx*200, idx*200+200
	if lo >= len(all) {
		return nil
	}
	if hi > len(all) {
		hi = len(all)
	}
	return all[lo:hi]
}

// recordKey turns one JSON output line into the canonical key used by shape.Classify.
func recordKey(kind, line string) (string, error) {
	var m map[string]interface{}
	if err := json.Unmarshal([]byte(line), &m); err != nil {
		return "", fmt.Errorf("output line %q is not JSON: %v", line, err)
	}
	num := func(v interface{}) int {
		f, _ := v.(float64)
		return int(f)
	}
	str := func(v interface{}) string {
		s, _ := v.(string)
		return s
	}
	switch kind {
	case "arp":
		return fmt.Sprintf("arp|%s|%s", str(m["ip"]), str(m["mac"])), nil
	case "icmp", "udp":
		ic, _ := m["icmp"].(map[string]interface{})
		return fmt.Sprintf("%s|%s|ttl=%d|type=%d|code=%d", str(m["scan"]), str(m["ip"]), num(m["ttl"]), num(ic["type"]), num(ic["code"])), nil
	default:
		return fmt.Sprintf("%s|%s|%d|%s", str(m["scan"]), str(m["ip"]), num(m["port"]), str(m["flags"])), nil
	}
}

type c03Injected struct {
	sock  int
	frame []byte
	note  string
	acc   bool
}

func c03Run(c c03Case, exitDelay time.Duration) (res *cmdResult, inj []c03Injected, args []string) {
	byWrite := map[int][]c03Event{}
	for _, e := range c.Events {
		byWrite[e.AtWrite] = append(byWrite[e.AtWrite], e)
	}
	var mu sync.Mutex
	fire := func(s *vwire.Socket, evs []c03Event) {
		for _, e := range evs {
			acc := s.Inject(e.Frame)
			mu.Lock()
			inj = append(inj, c03Injected{sock: s.Index, frame: e.Frame, note: e.Note, acc: acc})
			mu.Unlock()
		}
	}
	sc := vwire.Scenario{
		OnFilter: func(w *vwire.World, s *vwire.Socket) {
			if s.Index == 0 {
				fire(s, byWrite[0])
			}
		},
		OnWrite: func(w *vwire.World, s *vwire.Socket, wr *vwire.Write) error {
			fire(s, byWrite[wr.Seq])
			return nil
		},
	}
	files := &cmdFiles{}
	defer files.cleanup()
	var stdin *string
	args, stdin = specArgs(c.Cmd, c.Spec, "p", false, c.VPN, files, "--exit-delay", exitDelay.String())
	res = runCmd(cmdRun{Args: args, Stdin: stdin, Seed: c.Seed, World: vwire.NewWorld(sc), Timeout: 120 * time.Second})
	return
}

func c03Judge(c c03Case, res *cmdResult, inj []c03Injected) (err error, must, may, dontcare int) {
	kind := scanKind(c.Cmd)
	var subnet *gram.Prefix
	if c.Spec.CIDR != "" {
		p, _ := gram.RefIPv4Target(c.Spec.CIDR)
		subnet = &p
	}
	mustSet, maySet := map[string]int{}, map[string]int{}
	for _, in := range inj {
		s := shape.Scan{Kind: kind, Ethernet: !c.VPN || kind == "arp", Subnet: subnet, Ports: chunkRanges(c.Spec.Ports, in.sock), AllPorts: c.Spec.Ports}
		if kind == "icmp" || kind == "udp" || kind == "arp" {
			s.Ports, s.AllPorts = nil, nil
		}
		v, key := shape.Classify(s, in.frame)
		switch v {
		case shape.Yes:
			mustSet[key]++
			must++
		case shape.DontCare:
			if key != "" {
				maySet[key]++
			}
			dontcare++
		}
	}
	got := map[string]int{}
	for _, l := range strings.Split(strings.TrimSuffix(res.Stdout, "\n"), "\n") {
		if l == "" {
			continue
		}
		k, e := recordKey(kind, l)
		if e != nil {
			return e, must, may, dontcare
		}
		got[k]++
	}
	var miss, extra []string
	for k, n := range mustSet {
		if got[k] < n {
			miss = append(miss, fmt.Sprintf("%s x%d", k, n-got[k]))
		}
	}
	for k, n := range got {
		if n > mustSet[k]+maySet[k] {
			extra = append(extra, fmt.Sprintf("%s x%d", k, n-mustSet[k]-maySet[k]))
		}
	}
	if len(miss)+len(extra) > 0 {
		sort.Strings(miss)
		sort.Strings(extra)
		return fmt.Errorf("reply-shaped frames not reported: %v; records without a reply-shaped frame: %v", clipList(miss, 4), clipList(extra, 4)), must, may, dontcare
	}
	return nil, must, may, dontcare
}

func clipList(l []string, n int) []string {
	if len(l) > n {
		return append(append([]string(nil), l[:n]...), fmt.Sprintf("... %d more", len(l)-n))
	}
	return l
}

func c03Check(c c03Case) *kit.Verdict {
	v := &kit.Verdict{Units: len(c.Events)}
	kind := scanKind(c.Cmd)
	v.Label("scan=%s", kind)
	mode := "subnet"
	if c.Spec.HasFile {
		mode = "file"
		if len(c.Spec.Ports) > 0 {
			mode = "file-x-ports"
		}
	}
	if len(c.Spec.Ports) > 200 {
		mode += "-chunked"
	}
	if c.VPN {
		mode += "-vpn"
	}
	v.Label("mode=%s", mode)
	exit := time.Duration(c.ExitMs) * time.Millisecond
	res, inj, args := c03Run(c, exit)
	line := "sx " + strings.Join(args, " ")
	if res.Hung {
		return v.Failf("%s did not return\n%s", line, clipN(res.Goroutines, 2500))
	}
	if res.Err != nil {
		return v.Failf("%s failed: %v", line, res.Err)
	}
	err, must, _, dc := c03Judge(c, res, inj)
	if err != nil {
		// a missing record can be a scheduling artefact of a short exit delay: decide with a long one
		res2, inj2, _ := c03Run(c, 3*time.Second)
		if res2.Hung || res2.Err != nil {
			return v.Failf("%s: %v", line, err)
		}
		err2, _, _, _ := c03Judge(c, res2, inj2)
		if err2 == nil {
			return &kit.Verdict{Inconclusive: true}
		}
		return v.Failf("%s\n%v\n(%d frames injected, %d must be reported; stdout %d lines)", line, err2, len(inj2), must, strings.Count(res2.Stdout, "\n"))
	}
	if dc > 0 {
		v.Label("with-dont-care")
	}
	v.NonTrivial = must >= 1 && len(inj)-must-dc >= 1
	return v
}

// ---- traffic generation

func c03GenEvents(t *rapid.T, c *c03Case, totalWrites int, targets []uint32) {
	kind := scanKind(c.Cmd)
	eth := !c.VPN || kind == "arp"
	var subnet *gram.Prefix
	if c.Spec.CIDR != "" {
		p, _ := gram.RefIPv4Target(c.Spec.CIDR)
		subnet = &p
	}
	own := map[string]string{"arp": "arp", "icmp": "icmp", "udp": "icmp"}[kind]
	if own == "" {
		own = "tcp"
	}
	// writes per chunk (no exclusions in this check)
	naddr := len(targets)
	chunkOf := func(at int) int {
		if len(c.Spec.Ports) == 0 || at <= 0 {
			return 0
		}
		acc := 0
		for ci := 0; ci*200 < len(c.Spec.Ports); ci++ {
			np := 0
			for _, r := range chunkRanges(c.Spec.Ports, ci) {
				np += int(r.End-r.Start) + 1
			}
			acc += np * naddr
			if at <= acc {
				return ci
			}
		}
		return 0
	}
	n := rapid.SampledFrom([]int{1, 3, 8, 20, 40}).Draw(t, "nevents")
	for i := 0; i < n; i++ {
		at := 0
		if totalWrites > 0 && rapid.IntRange(0, 9).Draw(t, "at0") != 0 {
			at = 1 + kit.Uniform(t, "at", totalWrites)
		}
		ranges := chunkRanges(c.Spec.Ports, chunkOf(at))
		note := ""
		srcIP := func(t *rapid.T) [4]byte {
			var a uint32
			switch k := rapid.IntRange(0, 9).Draw(t, "srcclass"); {
			case k <= 5:
				a = targets[kit.Uniform(t, "target", len(targets))]
				note += "src=target "
			case k <= 7 && subnet != nil:
				a = rapid.SampledFrom([]uint32{subnet.Base - 1, subnet.Base + uint32(subnet.Size()), subnet.Base ^ 0x80000000, subnet.Base, subnet.Base + uint32(subnet.Size()-1)}).Draw(t, "edge")
				note += "src=subnet-edge "
			default:
				a = uint32(kit.UniformInt64(t, "anysrc", 0, 1<<32-1))
				note += "src=any "
			}
			return gram.U32Bytes(a)
		}
		srcPort := func(t *rapid.T) uint16 {
			if len(ranges) == 0 {
				return uint16(kit.UniformInt64(t, "anyport", 0, 65535))
			}
			r := ranges[kit.Uniform(t, "range", len(ranges))]
			switch k := rapid.IntRange(0, 9).Draw(t, "portclass"); {
			case k <= 4:
				note += "port=in "
				return uint16(kit.UniformInt64(t, "inport", int64(r.Start), int64(r.End)))
			case k == 5:
				note += "port=start-1 "
				return r.Start - 1
			case k == 6:
				note += "port=end+1 "
				return r.End + 1
			case k == 7 && len(c.Spec.Ports) > 200:
				o := c.Spec.Ports[kit.Uniform(t, "otherrange", len(c.Spec.Ports))]
				note += "port=some-range "
				return o.Start
			default:
				note += "port=any "
				return uint16(kit.UniformInt64(t, "anyport", 0, 65535))
			}
		}
		fk := own
		if rapid.IntRange(0, 3).Draw(t, "otherkind") == 0 {
			fk = gen.AllKinds[kit.Uniform(t, "kind", len(gen.AllKinds))]
		}
		opts := gen.FrameOpts{Ethernet: eth, SrcIP: srcIP, SrcPort: srcPort, DstIP: [4]byte{10, 250, 0, 1}, DstMAC: [6]byte{2, 0, 0, 0, 0, 1}}
		fr := gen.ValidFrame(t, fk, opts)
		if !eth && (fk == "arp" || fk == "ipv6" || fk == "vlan") {
			// these kinds only exist with a link header; in raw-IP mode use an IPv4 datagram of another protocol
			fk = "other"
			fr = gen.ValidFrame(t, fk, opts)
		}
		c.Events = append(c.Events, c03Event{AtWrite: at, Frame: fr, Note: fk + " " + strings.TrimSpace(note)})
	}
}

func TestC03Detection(t *testing.T) {
	kit.Run(t, kit.Spec[c03Case]{
		Prop: "C03",
		Rule: "a packet-scan command (arp, icmp, udp, tcp syn/fin/null/xmas/--flags; icmp and udp also with probe-shaping options --type/--code/--ttl/--payload/--ipflags) in a CLI mode (subnet; file of pairs; file x ports; >200 ranges => chunks; one case in twelve a single target with wide nested / overlapping / touching ranges up to port 65535; raw-IP mode) on the virtual wire, which runs the exact BPF text sx installs; 1..40 frames injected as reactions to probe writes (or right after the filter is installed): own-protocol frames whose source is a target / a subnet edge (base-1, base, last, last+1) / anything and whose source port is inside a range of the open chunk / start-1 / end+1 / a range of another chunk / anything, with all TCP flag sets, IP and TCP options, payloads, every ICMP type/code, TTLs; and other traffic (udp, ipv6, vlan, IP-in-IP, other protocols, ARP). All well-formed and unfragmented. Oracle: shape.Classify (independent decoder) decides which injected frames must be reported; stdout JSON records = one per such frame with that frame's fields (multiset; documented don't-cares optional). A verdict that fails with the short exit delay is re-decided with a 3 s exit delay (timing artefacts are discarded as inconclusive). non-trivial: >=1 reply-shaped and >=1 non-reply frame; distinct by case",
		Gen: func(t *rapid.T) c03Case {
			c := c03Case{Cmd: rapid.SampledFrom(c01PacketCmds).Draw(t, "cmd"), Seed: rapid.Int64().Draw(t, "seed"), ExitMs: 120}
			base := strings.Fields(c.Cmd)[0]
			// options that shape the PROBE must not change what counts as a reply
			if base == "icmp" && rapid.Bool().Draw(t, "icmp-opts") {
				c.Cmd += fmt.Sprintf(" --type %d", rapid.SampledFrom([]int{13, 0, 15, 17, 3, 8, 42, 255}).Draw(t, "type"))
				if rapid.Bool().Draw(t, "with-code") {
					c.Cmd += fmt.Sprintf(" --code %d", rapid.SampledFrom([]int{0, 1, 3, 255}).Draw(t, "code"))
				}
			}
			if (base == "icmp" || base == "udp") && rapid.IntRange(0, 2).Draw(t, "probe-opts") == 0 {
				c.Cmd += rapid.SampledFrom([]string{" --ttl 1", " --ttl 255", ` --payload \x00\x01abc`, " --ipflags mf", " --ttl 7 --payload x"}).Draw(t, "opt")
			}
			c.Spec = genSpec(t, cmdPortless(base), base != "arp", 1500)
			c.Spec.Exclude = nil
			if !cmdPortless(base) && rapid.IntRange(0, 11).Draw(t, "wide-port-ranges") == 0 {
				// one target, wide ranges that nest, overlap or touch each other and reach the end of the port space
				// (the receive filter is built from the list of ranges)
				a := uint32(kit.UniformInt64(t, "wbase", 1<<24, 0xdfffffff))
				c.Spec = gram.Spec{CIDR: gram.U32String(a)}
				for _, r := range rapid.SampledFrom([][][2]int{
					{{1, 1024}, {1025, 65535}}, {{1, 10000}, {8000, 65535}}, {{49152, 65535}, {1, 49151}}, {{60000, 65535}, {65535, 65535}},
					{{1, 65535}}, {{65000, 65535}, {64000, 65100}}, {{1, 1024}, {80, 80}}, {{100, 200}, {201, 300}, {150, 250}}, {{65534, 65535}, {1, 2}, {3, 65533}},
				}).Draw(t, "wide") {
					c.Spec.Ports = append(c.Spec.Ports, gram.PortRange{Start: uint16(r[0]), End: uint16(r[1])})
				}
			}
			if base != "arp" {
				c.VPN = rapid.Bool().Draw(t, "vpn")
			}
			want, _ := c.Spec.Denote(cmdPortless(base))
			seen := map[uint32]bool{}
			var targets []uint32
			for p := range want {
				if !seen[p.IP] {
					seen[p.IP] = true
					targets = append(targets, p.IP)
				}
			}
			sort.Slice(targets, func(i, j int) bool { return targets[i] < targets[j] })
			c03GenEvents(t, &c, gram.Total(want), targets)
			return c
		},
		Check: c03Check,
	})
}

// ---------------------------------------------------------------- bursts of replies against a slow consumer of the output

type c03BurstCase struct {
	Cmd     string `json:"command"`
	Replies int    `json:"replies_in_one_burst"`
	SlowUs  int    `json:"consumer_pause_us_per_256_bytes"`
	Seed    int64  `json:"rand_seed"`
	// C06: every reply is followed by a runt (the same frame cut inside its headers) that must not produce a record
	Runts bool `json:"runt_after_every_reply,omitempty"`
	// every 7th reply is longer on the wire than the capture length the scan asks for (jumbo frame / padded ARP)
	Jumbo bool `json:"every_7th_reply_longer_than_the_snap_length,omitempty"`
}

func c03BurstCheck(c c03BurstCase) *kit.Verdict {
	v := &kit.Verdict{Units: c.Replies}
	kind := scanKind(c.Cmd)
	v.Label("scan=%s", kind)
	want := map[string]int{}
	var frames [][]byte
	runts := 0
	for i := 0; i < c.Replies; i++ {
		src := uint32(10<<24|9<<16) + uint32(i%4)
		// distinct records: vary ttl / port / mac with i
		var fr []byte
		switch kind {
		case "arp":
			ipb := gram.U32Bytes(src)
			mac := []byte{2, 7, byte(i >> 16), byte(i >> 8), byte(i), 9}
			var sm [6]byte
			copy(sm[:], mac)
			fr = append(wire.Eth{Dst: [6]byte{2, 0, 0, 0, 0, 1}, Src: sm, Type: wire.EtherARP}.Bytes(),
				wire.ARP{HType: 1, PType: 0x0800, HLen: 6, PLen: 4, Op: 2, SHA: mac, SPA: ipb[:], THA: []byte{2, 0, 0, 0, 0, 1}, TPA: []byte{10, 250, 0, 1}}.Bytes()...)
			if c.Jumbo && i%7 == 3 {
				fr = append(fr, make([]byte, 300)...) // link-layer padding beyond the ARP body
			}
		case "icmp":
			s4, d4 := gram.U32Bytes(src), [4]byte{10, 250, 0, 1}
			pay := []byte("burst")
			if c.Jumbo && i%7 == 3 {
				pay = bytes.Repeat([]byte("J"), 3000)
			}
			ip := wire.IPv4{ID: uint16(i), Flags: 2, TTL: uint8(1 + i%250), Proto: wire.ProtoICMP, Src: s4, Dst: d4}.Bytes(wire.ICMP{Type: []uint8{0, 3, 11, 13, 14, 5, 12}[i/250%7], Code: uint8(i / 1750), ID: 1, Seq: uint16(i)}.Bytes(pay))
			fr = append(wire.Eth{Dst: [6]byte{2, 0, 0, 0, 0, 1}, Src: [6]byte{2, 0, 0, 0, 0, 2}, Type: wire.EtherIPv4}.Bytes(), ip...)
		default:
			src = uint32(10<<24 | 9<<16) // one target, 3000 ports
			fr = c16Reply(kind, true, src, uint16(1000+i%3000))
			if c.Jumbo && i%7 == 3 {
				// the same reply carrying 4000 bytes of data
				s4, d4 := gram.U32Bytes(src), [4]byte{10, 250, 0, 1}
				fl := uint16(wire.RST | wire.ACK)
				if kind == "tcpsyn" {
					fl = wire.SYN | wire.ACK
				}
				body := wire.IPv4{ID: 9, Flags: 2, TTL: 61, Proto: wire.ProtoTCP, Src: s4, Dst: d4}.Bytes(wire.TCP{SrcPort: uint16(1000 + i%3000), DstPort: 40000, Flags: fl, Window: 100}.Bytes(s4, d4, bytes.Repeat([]byte("J"), 4000)))
				fr = append(wire.Eth{Dst: [6]byte{2, 0, 0, 0, 0, 1}, Src: [6]byte{2, 5, 5, 5, 5, 5}, Type: wire.EtherIPv4}.Bytes(), body...)
			}
			if i >= 3000 {
				// flags differ for the second lap over the ports
				fr = nil
			}
		}
		if fr == nil {
			continue
		}
		bits := 30
		if kind != "arp" && kind != "icmp" {
			bits = 32
		}
		s := shape.Scan{Kind: kind, Ethernet: true, Subnet: &gram.Prefix{Base: 10<<24 | 9<<16, Bits: bits, Addr: 10<<24 | 9<<16},
			Ports: []gram.PortRange{{Start: 1000, End: 3999}}, AllPorts: []gram.PortRange{{Start: 1000, End: 3999}}}
		if kind == "arp" || kind == "icmp" {
			s.Ports, s.AllPorts = nil, nil
		}
		verdict, key := shape.Classify(s, fr)
		if verdict != shape.Yes {
			return v.Failf("harness: burst frame %d is not reply-shaped (%s)", i, key)
		}
		want[key]++
		frames = append(frames, fr)
		if c.Runts {
			cut := 14 + 4 + i%24 // somewhere between the end of the link header and the end of the transport header
			if cut < len(fr) {
				runt := append([]byte(nil), fr[:cut]...)
				if verdict, _ := shape.Classify(s, runt); verdict == shape.No {
					frames = append(frames, runt)
					runts++
				}
			}
		}
	}
	if c.Runts {
		v.Label("runts=%d", runts/500*500)
	}
	fired := false
	sc := vwire.Scenario{OnWrite: func(w *vwire.World, s *vwire.Socket, wr *vwire.Write) error {
		if !fired {
			fired = true
			for _, fr := range frames {
				s.Inject(fr)
			}
		}
		return nil
	}}
	files := &cmdFiles{}
	defer files.cleanup()
	args := append([]string{}, strings.Fields(c.Cmd)...)
	args = append(args, "-i", "lo", "--srcip", c01SrcIP, "--srcmac", c01SrcMAC, "--json", "--exit-delay", "1500ms")
	if kind != "arp" {
		args = append(args, "--gwmac", c01GwMAC, "-a", files.write("arpcache", ""))
	}
	if kind != "arp" && kind != "icmp" {
		args = append(args, "-p", "1000-3999", "10.9.0.0/32")
	} else {
		args = append(args, "10.9.0.0/30")
	}
	res := runCmd(cmdRun{Args: args, Seed: c.Seed, World: vwire.NewWorld(sc), Timeout: 120 * time.Second,
		SlowFor: 200 * time.Millisecond, SlowPause: time.Duration(c.SlowUs) * time.Microsecond})
	line := "sx " + strings.Join(args, " ")
	if res.Hung || res.Err != nil {
		return v.Failf("%s: hung=%v err=%v", line, res.Hung, res.Err)
	}
	got := map[string]int{}
	for _, l := range strings.Split(strings.TrimSuffix(res.Stdout, "\n"), "\n") {
		if l == "" {
			continue
		}
		k, err := recordKey(kind, l)
		if err != nil {
			return v.Failf("%s: %v", line, err)
		}
		got[k]++
	}
	var miss, extra []string
	for k, n := range want {
		if got[k] < n {
			miss = append(miss, fmt.Sprintf("%s x%d", k, n-got[k]))
		}
	}
	for k, n := range got {
		if n > want[k] {
			extra = append(extra, fmt.Sprintf("%s x%d", k, n-want[k]))
		}
	}
	if len(extra) > 0 || len(miss) > 0 {
		sort.Strings(miss)
		sort.Strings(extra)
		return v.Failf("%s\n%d reply-shaped frames arrived in one burst while the consumer of stdout was slow (%d us per 256 bytes): records missing %v, surplus %v", line, len(frames), c.SlowUs, clipList(miss, 4), clipList(extra, 4))
	}
	v.NonTrivial = len(frames) > 2000
	return v
}

func TestC03Burst(t *testing.T) {
	kit.Run(t, kit.Spec[c03BurstCase]{
		Prop: "C03",
		Rule: "arp / icmp / tcp fin / tcp syn on the virtual wire: right after the first probe 500..6000 DISTINCT reply-shaped frames arrive in one burst (more than the two 1000-slot result buffers) while the consumer of stdout is slow for the first 200 ms (256 bytes per 50..300 us); exit delay 1.5 s, so the backlog is drained long before the exit. Oracle: exactly one record per frame (multiset equality) - nothing lost, duplicated or swapped in the hand-off under back-pressure. non-trivial: > 2000 frames; distinct by case",
		Gen: func(t *rapid.T) c03BurstCase {
			return c03BurstCase{Cmd: rapid.SampledFrom([]string{"arp", "icmp", "tcp fin", "tcp syn"}).Draw(t, "cmd"), Replies: rapid.SampledFrom([]int{500, 2100, 3000, 6000}).Draw(t, "replies"),
				SlowUs: rapid.SampledFrom([]int{50, 120, 300}).Draw(t, "slow"), Seed: rapid.Int64().Draw(t, "seed")}
		},
		Check: c03BurstCheck,
	})
}

// ---------------------------------------------------------------- chunked port scans under continuous reply traffic
//
// A scan of more than 200 port ranges runs chunk after chunk, each with its own socket and filter. Replies for ports
// of EVERY chunk keep arriving during the whole scan (answers to the current chunk, stragglers of earlier ones, noise
// for later ones). Whatever the chunks do, a record must be one of the injected frames, field by field.

type c03ChunkCase struct {
	Cmd      string `json:"command"`
	NRanges  int    `json:"port_ranges"`
	PerWrite int    `json:"frames_injected_per_probe"`
	Seed     int64  `json:"rand_seed"`
}

func c03ChunkFlags(port uint16) uint16 {
	f := []uint16{wire.RST | wire.ACK, wire.SYN | wire.ACK, wire.RST, wire.FIN | wire.ACK, wire.ACK, wire.PSH | wire.ACK, wire.SYN | wire.ACK | wire.ECE, wire.FIN | wire.PSH | wire.URG}
	return f[int(port)%len(f)]
}

func c03ChunkCheck(c c03ChunkCase) *kit.Verdict {
	v := &kit.Verdict{Units: c.NRanges}
	kind := scanKind(c.Cmd)
	v.Label("scan=%s", kind)
	nchunks := (c.NRanges + 199) / 200
	v.Label("chunks=%d", nchunks)
	var ports []gram.PortRange
	for i := 0; i < c.NRanges; i++ {
		ports = append(ports, gram.PortRange{Start: uint16(2000 + 5*i), End: uint16(2000 + 5*i)})
	}
	srcs := []uint32{10<<24 | 9<<16 | 0, 10<<24 | 9<<16 | 1}
	dst := [4]byte{10, 250, 0, 1}
	frameFor := func(k int) ([]byte, string) {
		src := srcs[k%2]
		port := ports[(k/2)%len(ports)].Start
		s4 := gram.U32Bytes(src)
		fl := c03ChunkFlags(port ^ uint16(k%2))
		if kind == "tcpsyn" {
			fl = wire.SYN | wire.ACK
		}
		body := wire.IPv4{ID: uint16(k), Flags: 2, TTL: 61, Proto: wire.ProtoTCP, Src: s4, Dst: dst}.Bytes(wire.TCP{SrcPort: port, DstPort: 40000, Flags: fl, Window: 100}.Bytes(s4, dst, nil))
		fr := append(wire.Eth{Dst: [6]byte{2, 0, 0, 0, 0, 1}, Src: [6]byte{2, 5, 5, 5, 5, 5}, Type: wire.EtherIPv4}.Bytes(), body...)
		sc := shape.Scan{Kind: kind, Ethernet: true, Subnet: &gram.Prefix{Base: 10<<24 | 9<<16, Bits: 31, Addr: 10<<24 | 9<<16}, Ports: ports, AllPorts: ports}
		verdict, key := shape.Classify(sc, fr)
		if verdict != shape.Yes {
			return nil, ""
		}
		return fr, key
	}
	var mu sync.Mutex
	injected := map[string]int{}
	accepted := map[string]int{}
	// accepted during the last writes of a socket: the exit delay that follows is short, so under load the receiver may
	// not get to them before the socket is closed - they may be reported, they need not
	acceptedLate := map[string]int{}
	perSocket := map[int]int{}
	chunkWrites := func(idx int) int {
		n := c.NRanges - idx*200
		if n > 200 {
			n = 200
		}
		return n * 2
	}
	next := 0
	var harness string
	sc := vwire.Scenario{OnWrite: func(w *vwire.World, s *vwire.Socket, wr *vwire.Write) error {
		for i := 0; i < c.PerWrite; i++ {
			mu.Lock()
			k := next
			next += 7 // stride over the port list: every chunk's ports keep coming
			mu.Unlock()
			fr, key := frameFor(k)
			if fr == nil {
				mu.Lock()
				harness = "a generated frame is not reply-shaped"
				mu.Unlock()
				continue
			}
			n := w.InjectOpen(fr)
			mu.Lock()
			injected[key]++
			if i == 0 {
				perSocket[s.Index]++
			}
			if perSocket[s.Index] > chunkWrites(s.Index)-4 {
				acceptedLate[key] += n
			} else {
				accepted[key] += n
			}
			mu.Unlock()
		}
		return nil
	}}
	files := &cmdFiles{}
	defer files.cleanup()
	args := append([]string{}, strings.Fields(c.Cmd)...)
	args = append(args, "-i", "lo", "--srcip", c01SrcIP, "--srcmac", c01SrcMAC, "--json", "--exit-delay", "150ms", "--gwmac", c01GwMAC, "-a", files.write("arpcache", ""),
		"-p", renderPorts(ports), "10.9.0.0/31")
	res := runCmd(cmdRun{Args: args, Seed: c.Seed, World: vwire.NewWorld(sc), Timeout: 120 * time.Second})
	line := "sx " + clipN(strings.Join(args, " "), 300)
	if res.Hung || res.Err != nil {
		return v.Failf("%s: hung=%v err=%v\nstderr: %s", line, res.Hung, res.Err, clipN(res.Stderr, 600))
	}
	if harness != "" {
		return v.Failf("harness: %s", harness)
	}
	got := map[string]int{}
	for _, l := range strings.Split(strings.TrimSuffix(res.Stdout, "\n"), "\n") {
		if l == "" {
			continue
		}
		k, err := recordKey(kind, l)
		if err != nil {
			return v.Failf("%s: %v", line, err)
		}
		got[k]++
	}
	var extra, miss []string
	total := 0
	for k, n := range got {
		total += n
		if n > accepted[k]+acceptedLate[k] {
			if injected[k] == 0 {
				extra = append(extra, fmt.Sprintf("%s x%d (no such frame was ever injected)", k, n))
			} else {
				extra = append(extra, fmt.Sprintf("%s x%d (a socket filter accepted such a frame %d times)", k, n, accepted[k]+acceptedLate[k]))
			}
		}
	}
	// a frame accepted by a socket's filter while the socket was open arrived before the scan exited: it must be reported
	for k, n := range accepted {
		if got[k] < n {
			miss = append(miss, fmt.Sprintf("%s x%d", k, n-got[k]))
		}
	}
	if len(extra) > 0 || len(miss) > 0 {
		sort.Strings(extra)
		sort.Strings(miss)
		return v.Failf("%s\n%d port ranges = %d chunks; replies for ports of all chunks injected into every open socket at every probe: surplus/garbled records %v; accepted by a filter but not reported %v", line, c.NRanges, nchunks, clipList(extra, 4), clipList(miss, 4))
	}
	v.NonTrivial = nchunks >= 2 && total > 0
	return v
}

func TestC03Chunks(t *testing.T) {
	kit.Run(t, kit.Spec[c03ChunkCase]{
		Prop: "C03",
		Rule: "tcp fin / tcp syn / tcp --flags with 150..650 single-port ranges (1..4 chunks = sockets with their own filters) over two targets on the virtual wire (race detector on): at every probe write 1..4 reply frames for ports striding over ALL chunks (distinct flag sets as a function of port and source) are injected into every socket open at that moment. Oracle: every record is field-for-field one of the injected frames, and the records are exactly the frames that some open socket's filter accepted (multiset) - nothing garbled, doubled or lost whatever the chunks do. non-trivial: >=2 chunks and >=1 record; distinct by case",
		Gen: func(t *rapid.T) c03ChunkCase {
			return c03ChunkCase{Cmd: rapid.SampledFrom([]string{"tcp fin", "tcp fin", "tcp syn", "tcp --flags fin,ack"}).Draw(t, "cmd"), NRanges: rapid.SampledFrom([]int{150, 201, 401, 650}).Draw(t, "nranges"),
				PerWrite: rapid.IntRange(1, 4).Draw(t, "per-write"), Seed: rapid.Int64().Draw(t, "seed")}
		},
		Check: c03ChunkCheck,
	})
}

// ---------------------------------------------------------------- the switch from one chunk of a port scan to the next
//
// The socket of a chunk is closed and the next one opened while replies are still pouring in: a backlog is queued on the
// old socket when its (short) exit delay ends, and the first replies for the next chunk arrive the moment its filter is
// installed. Run under the race detector: the two receivers must not work on shared decoding state at the same time, and
// every record must still be one of the injected frames.

type c12SwitchCase struct {
	Cmd     string `json:"command"`
	NRanges int    `json:"port_ranges"`
	Backlog int    `json:"replies_queued_at_the_last_probe_of_a_chunk"`
	Seed    int64  `json:"rand_seed"`
}

func c12SwitchCheck(c c12SwitchCase) *kit.Verdict {
	v := &kit.Verdict{Units: c.NRanges}
	kind := scanKind(c.Cmd)
	base := strings.Fields(c.Cmd)[0]
	v.Label("scan=%s", kind)
	var ports []gram.PortRange
	for i := 0; i < c.NRanges; i++ {
		ports = append(ports, gram.PortRange{Start: uint16(2000 + 5*i), End: uint16(2000 + 5*i)})
	}
	src := uint32(10<<24 | 9<<16)
	reply := func(k int, chunk int) []byte {
		rs := chunkRanges(ports, chunk)
		port := rs[k%len(rs)].Start
		if base == "udp" {
			s4, d4 := gram.U32Bytes(src), [4]byte{10, 250, 0, 1}
			ip := wire.IPv4{ID: uint16(k), Flags: 2, TTL: uint8(1 + k%250), Proto: wire.ProtoICMP, Src: s4, Dst: d4}.Bytes(wire.ICMP{Type: 3, Code: uint8(k % 16), ID: 1, Seq: uint16(k)}.Bytes([]byte("switch")))
			return append(wire.Eth{Dst: [6]byte{2, 0, 0, 0, 0, 1}, Src: [6]byte{2, 0, 0, 0, 0, 2}, Type: wire.EtherIPv4}.Bytes(), ip...)
		}
		return c16Reply(kind, true, src, port)
	}
	injected := map[string]int{}
	var mu sync.Mutex
	perSocket := map[int]int{}
	note := func(fr []byte, chunk int) {
		sc := shape.Scan{Kind: kind, Ethernet: true, Subnet: &gram.Prefix{Base: src, Bits: 32, Addr: src}, Ports: chunkRanges(ports, chunk), AllPorts: ports}
		if base == "udp" {
			sc.Ports, sc.AllPorts = nil, nil
		}
		if verdict, key := shape.Classify(sc, fr); verdict == shape.Yes {
			mu.Lock()
			injected[key]++
			mu.Unlock()
		}
	}
	nchunks := (c.NRanges + 199) / 200
	sc := vwire.Scenario{
		OnFilter: func(w *vwire.World, s *vwire.Socket) {
			// the first replies of this chunk arrive the moment its socket is ready
			for k := 0; k < 20; k++ {
				fr := reply(k, s.Index)
				note(fr, s.Index)
				s.Inject(fr)
			}
		},
		OnWrite: func(w *vwire.World, s *vwire.Socket, wr *vwire.Write) error {
			mu.Lock()
			perSocket[s.Index]++
			n := perSocket[s.Index]
			mu.Unlock()
			if n == len(chunkRanges(ports, s.Index)) {
				// last probe of the chunk: a backlog that outlasts the exit delay
				for k := 0; k < c.Backlog; k++ {
					fr := reply(20+k, s.Index)
					note(fr, s.Index)
					s.Inject(fr)
				}
			}
			return nil
		}}
	files := &cmdFiles{}
	defer files.cleanup()
	args := append([]string{}, strings.Fields(c.Cmd)...)
	args = append(args, "-i", "lo", "--srcip", c01SrcIP, "--srcmac", c01SrcMAC, "--json", "--exit-delay", "1ms", "--gwmac", c01GwMAC, "-a", files.write("arpcache", ""),
		"-p", renderPorts(ports), "10.9.0.0/32")
	res := runCmd(cmdRun{Args: args, Seed: c.Seed, World: vwire.NewWorld(sc), Timeout: 120 * time.Second})
	line := "sx " + clipN(strings.Join(args, " "), 300)
	if res.Hung || res.Err != nil {
		return v.Failf("%s: hung=%v err=%v\nstderr: %s", line, res.Hung, res.Err, clipN(res.Stderr, 600))
	}
	got := map[string]int{}
	for _, l := range strings.Split(strings.TrimSuffix(res.Stdout, "\n"), "\n") {
		if l == "" {
			continue
		}
		k, err := recordKey(kind, l)
		if err != nil {
			return v.Failf("%s: %v", line, err)
		}
		got[k]++
	}
	for k, n := range got {
		if n > injected[k] {
			return v.Failf("%s\n%d port ranges = %d chunks, %d replies queued at the end of every chunk: record %s x%d, injected %d times (a record must be one of the frames, field for field)", line, c.NRanges, nchunks, c.Backlog, k, n, injected[k])
		}
	}
	v.NonTrivial = nchunks >= 2 && len(got) > 0
	return v
}

func TestC12ChunkSwitch(t *testing.T) {
	kit.Run(t, kit.Spec[c12SwitchCase]{
		Prop: "C12",
		Rule: "tcp fin / tcp syn / udp port scans of 401..1001 single-port ranges (3..6 chunks, one socket each) with --exit-delay 1ms on the virtual wire, race detector on: 300..3000 replies are queued on a chunk's socket at its last probe (the receiver is still busy when the chunk ends) and 20 replies arrive the moment the next socket is ready. Oracle: no data race between the receivers of consecutive chunks (reported by the race detector in sx code), no crash, every record is one of the injected frames. non-trivial: >=2 chunks and some record; distinct by case",
		Gen: func(t *rapid.T) c12SwitchCase {
			return c12SwitchCase{Cmd: rapid.SampledFrom([]string{"tcp fin", "tcp syn", "udp"}).Draw(t, "cmd"), NRanges: rapid.SampledFrom([]int{401, 601, 1001}).Draw(t, "nranges"),
				Backlog: rapid.SampledFrom([]int{300, 1000, 3000}).Draw(t, "backlog"), Seed: rapid.Int64().Draw(t, "seed")}
		},
		Check: c12SwitchCheck,
	})
}
