//go:build verif

package command

import (
	"fmt"
	"os"
	"strings"
	"testing"
	"time"

	kit "verifkit"
	"verifkit/gram"
	"verifkit/vwire"
	"verifkit/wire"

	"pgregory.net/rapid"
)

// C01: every specified target is probed exactly once per pass (command level, virtual wire).

type c01Case struct {
	Cmd      string    `json:"command"` // arp icmp udp tcp | tcp syn | tcp fin | tcp null | tcp xmas | tcp --flags X
	Spec     gram.Spec `json:"spec"`
	PortsVia string    `json:"ports_via"` // p | file | both
	Stdin    bool      `json:"file_from_stdin"`
	VPN      bool      `json:"vpn"`
	Seed     int64     `json:"rand_seed"`
	// TestC02ListNextToSubnet only: the exclusion entries are split over two files given as "--exclude f1,f2"
	ExcludeAsList bool `json:"exclude_given_as_two_files_comma_separated,omitempty"`
}

const (
	c01SrcIP  = "10.250.0.1"
	c01SrcMAC = "02:00:00:00:00:01"
	c01GwMAC  = "02:00:00:00:00:02"
)

func cmdPortless(cmd string) bool { return cmd == "arp" || cmd == "icmp" }

type cmdFiles struct{ paths []string }

func (f *cmdFiles) write(prefix, content string) string {
	fh, err := os.CreateTemp(c08WorkDir(), prefix+"-*.txt")
	if err != nil {
		panic(err)
	}
	fh.WriteString(content)
	fh.Close()
	f.paths = append(f.paths, fh.Name())
	return fh.Name()
}

func (f *cmdFiles) cleanup() {
	for _, p := range f.paths {
		os.Remove(p)
	}
}

func renderPorts(rs []gram.PortRange) string {
	parts := make([]string, len(rs))
	for i, r := range rs {
		parts[i] = gram.RenderPortRange(r, i%2 == 0)
	}
	return strings.Join(parts, ",")
}

// specArgs renders a packet-scan invocation for the specification.
func specArgs(cmd string, s gram.Spec, portsVia string, stdinFile, vpn bool, files *cmdFiles, extra ...string) (args []string, stdin *string) {
	args = append(args, strings.Fields(cmd)...)
	args = append(args, "-i", "lo", "--srcip", c01SrcIP, "--json")
	if cmd == "arp" {
		args = append(args, "--srcmac", c01SrcMAC)
	} else if !vpn {
		args = append(args, "--srcmac", c01SrcMAC, "--gwmac", c01GwMAC, "-a", files.write("arpcache", ""))
	}
	if len(s.Ports) > 0 {
		switch portsVia {
		case "file":
			var sb strings.Builder
			for _, r := range s.Ports {
				sb.WriteString(gram.RenderPortRange(r, false) + "\n")
			}
			args = append(args, "--ports-file", files.write("ports", sb.String()))
		case "both":
			h := len(s.Ports) / 2
			var sb strings.Builder
			for _, r := range s.Ports[h:] {
				sb.WriteString(gram.RenderPortRange(r, true) + "\n")
			}
			if h > 0 {
				args = append(args, "-p", renderPorts(s.Ports[:h]))
			}
			args = append(args, "--ports-file", files.write("ports", sb.String()))
		default:
			args = append(args, "-p", renderPorts(s.Ports))
		}
	}
	if s.HasFile {
		var sb strings.Builder
		pairs := len(s.Ports) == 0 && !cmdPortless(strings.Fields(cmd)[0])
		for _, l := range s.File {
			sb.WriteString(l.Render(pairs || l.Port != 0) + "\n")
		}
		if stdinFile {
			content := sb.String()
			stdin = &content
			args = append(args, "-f", "-")
		} else {
			args = append(args, "-f", files.write("targets", sb.String()))
		}
	}
	if len(s.Exclude) > 0 {
		args = append(args, "--exclude", files.write("exclude", strings.Join(s.Exclude, "\n")+"\n"))
	}
	args = append(args, extra...)
	if s.CIDR != "" {
		args = append(args, s.CIDR)
	}
	return
}

// probesOnWire decodes every written frame into its (destination address, destination port).
func probesOnWire(cmd string, res *cmdResult) (map[gram.Probe]int, error) {
	got := map[gram.Probe]int{}
	byIdx := map[int]vwire.SocketInfo{}
	for _, s := range res.Sockets {
		byIdx[s.Index] = s
	}
	for _, s := range res.Sockets {
		for _, w := range s.Writes {
			f := wire.Decode(w.Frame, !s.VPN)
			switch {
			case cmd == "arp":
				if f.ARP == nil || len(f.ARP.TPA) != 4 {
					return nil, fmt.Errorf("frame %x is not an ARP request", w.Frame)
				}
				got[gram.Probe{IP: gram.BytesU32(f.ARP.TPA)}]++
			case len(f.IPs) == 0:
				return nil, fmt.Errorf("frame %x has no IPv4 header (%s)", w.Frame, f.Stop)
			case cmd == "icmp":
				got[gram.Probe{IP: gram.BytesU32(f.IPs[0].Dst[:])}]++
			case cmd == "udp":
				if f.UDP == nil {
					return nil, fmt.Errorf("frame %x is not UDP (%s)", w.Frame, f.Stop)
				}
				got[gram.Probe{IP: gram.BytesU32(f.IPs[0].Dst[:]), Port: f.UDP.DstPort}]++
			default:
				if f.TCP == nil {
					return nil, fmt.Errorf("frame %x is not TCP (%s)", w.Frame, f.Stop)
				}
				got[gram.Probe{IP: gram.BytesU32(f.IPs[0].Dst[:]), Port: f.TCP.DstPort}]++
			}
		}
	}
	return got, nil
}

func errorLines(stderr string) []string {
	var out []string
	for _, l := range strings.Split(stderr, "\n") {
		if strings.Contains(l, `"level":"error"`) || strings.HasPrefix(l, "Error:") {
			out = append(out, l)
		}
	}
	return out
}

func c01Check(c c01Case) *kit.Verdict {
	v := &kit.Verdict{}
	base := strings.Fields(c.Cmd)[0]
	want, ok := c.Spec.Denote(cmdPortless(base))
	if !ok {
		return v.Failf("harness: specification has no denotation: %+v", c.Spec)
	}
	v.Units = gram.Total(want)
	v.Label("cmd=%s", c.Cmd)
	mode := "cidr"
	if c.Spec.HasFile {
		mode = "file-pairs"
		if len(c.Spec.Ports) > 0 || cmdPortless(base) {
			mode = "file-x-ports"
		}
		if c.Stdin {
			mode += "-stdin"
		}
	}
	v.Label("mode=%s", mode)
	if len(c.Spec.Ports) > 200 {
		v.Label("chunked")
	}
	if len(c.Spec.Exclude) > 0 {
		v.Label("exclude")
	}
	if c.VPN {
		v.Label("vpn")
	}
	naddr := map[uint32]bool{}
	for p := range want {
		naddr[p.IP] = true
	}
	v.NonTrivial = len(naddr) >= 2 && (len(c.Spec.Ports) >= 2 || cmdPortless(base) || mode == "file-pairs")
	files := &cmdFiles{}
	defer files.cleanup()
	args, stdin := specArgs(c.Cmd, c.Spec, c.PortsVia, c.Stdin, c.VPN, files, "--exit-delay", "5ms")
	res := runCmd(cmdRun{Args: args, Stdin: stdin, Seed: c.Seed, Timeout: 120 * time.Second})
	if res.Hung {
		return v.Failf("sx %s did not return within 120s\n%s", strings.Join(args, " "), clipN(res.Goroutines, 3000))
	}
	if res.Err != nil {
		return v.Failf("sx %s failed: %v\nstderr: %s", strings.Join(args, " "), res.Err, clipN(res.Stderr, 600))
	}
	got, err := probesOnWire(base, res)
	if err != nil {
		return v.Failf("sx %s: %v", strings.Join(args, " "), err)
	}
	if d := gram.DiffProbes(want, got); d != "" {
		return v.Failf("sx %s\nprobes on the wire differ from the specification (%d expected, %d sent): %s\nstderr: %s",
			strings.Join(args, " "), gram.Total(want), gram.Total(got), d, clipN(res.Stderr, 400))
	}
	if el := errorLines(res.Stderr); len(el) > 0 {
		return v.Failf("sx %s: valid specification but error records: %s", strings.Join(args, " "), clipN(strings.Join(el, "\n"), 500))
	}
	return v
}

func clipN(s string, n int) string {
	if len(s) > n {
		return s[:n] + "..."
	}
	return s
}

var c01PacketCmds = []string{"arp", "icmp", "udp", "tcp", "tcp syn", "tcp fin", "tcp null", "tcp xmas", "tcp --flags fin,ack", "tcp --flags syn,ece,cwr"}

// genSpec draws a valid target specification with at most budget probes.
func genSpec(t *rapid.T, portless, allowFile bool, budget int) gram.Spec {
	var s gram.Spec
	mode := "cidr"
	if allowFile {
		mode = rapid.SampledFrom([]string{"cidr", "cidr", "pairs", "ips"}).Draw(t, "mode")
	}
	if portless && mode == "pairs" {
		mode = "ips"
	}
	var addrs []uint32
	switch mode {
	case "cidr":
		bits := rapid.SampledFrom([]int{32, 31, 30, 29, 28, 27, 26, 24, 22}).Draw(t, "bits")
		if !portless && bits < 26 && rapid.IntRange(0, 3).Draw(t, "small") != 0 {
			bits = 28
		}
		a := uint32(kit.UniformInt64(t, "base", 0, 1<<32-1))
		if rapid.Bool().Draw(t, "aligned") && bits < 32 {
			a = a >> uint(32-bits) << uint(32-bits)
		}
		s.CIDR = fmt.Sprintf("%s/%d", gram.U32String(a), bits)
		if bits == 32 && rapid.Bool().Draw(t, "host-form") {
			s.CIDR = gram.U32String(a)
		}
		p, _ := gram.RefIPv4Target(s.CIDR)
		for i := uint64(0); i < p.Size(); i++ {
			addrs = append(addrs, p.Base+uint32(i))
		}
	default:
		s.HasFile = true
		n := rapid.SampledFrom([]int{1, 2, 3, 8, 30, 120}).Draw(t, "nlines")
		for i := 0; i < n; i++ {
			l := gram.FileLine{IP: uint32(kit.UniformInt64(t, "fip", 0, 1<<32-1)), Mapped: rapid.IntRange(0, 4).Draw(t, "mapped") == 0}
			if i > 0 && rapid.IntRange(0, 5).Draw(t, "dup") == 0 {
				l.IP = s.File[kit.Uniform(t, "dupof", i)].IP
			}
			if mode == "pairs" {
				l.Port = int(kit.UniformInt64(t, "fport", 1, 65535))
			} else if rapid.Bool().Draw(t, "stray-port") {
				l.Port = int(kit.UniformInt64(t, "sport", 1, 65535)) // documented as irrelevant in addresses x ports mode
			}
			s.File = append(s.File, l)
			addrs = append(addrs, l.IP)
		}
	}
	if !portless && mode != "pairs" {
		perAddr := budget / len(addrs)
		if perAddr < 1 {
			perAddr = 1
		}
		nr := rapid.SampledFrom([]int{1, 1, 2, 3, 5, 12, 201, 260, 450}).Draw(t, "nranges")
		if nr > perAddr {
			nr = perAddr
		}
		left := perAddr
		for i := 0; i < nr; i++ {
			maxw := left - (nr - 1 - i)
			if maxw < 1 {
				maxw = 1
			}
			w := 1
			if maxw > 1 && rapid.IntRange(0, 2).Draw(t, "wide") == 0 {
				w = 1 + kit.Uniform(t, "width", min(maxw, 40))
			}
			left -= w
			var start int
			if i > 0 && rapid.IntRange(0, 3).Draw(t, "overlap") == 0 {
				// adjacent to / overlapping an earlier range
				prev := s.Ports[kit.Uniform(t, "prev", i)]
				start = int(prev.Start) + kit.Uniform(t, "shift", int(prev.End-prev.Start)+2)
			} else {
				start = int(kit.UniformInt64(t, "pstart", 1, 65535))
			}
			if rapid.IntRange(0, 9).Draw(t, "edge") == 0 {
				start = rapid.SampledFrom([]int{1, 65535, 65535 - w + 1}).Draw(t, "edgeport")
			}
			if start < 1 {
				start = 1
			}
			if start+w-1 > 65535 {
				start = 65535 - w + 1
			}
			s.Ports = append(s.Ports, gram.PortRange{Start: uint16(start), End: uint16(start + w - 1)})
		}
	}
	// exclusions that intersect the target
	if rapid.IntRange(0, 2).Draw(t, "with-exclude") == 0 {
		ne := rapid.IntRange(1, 3).Draw(t, "nexcl")
		for i := 0; i < ne; i++ {
			a := addrs[kit.Uniform(t, "exaddr", len(addrs))]
			bits := rapid.SampledFrom([]int{32, 32, 31, 30, 28, 24}).Draw(t, "exbits")
			if bits == 32 && rapid.Bool().Draw(t, "exhost") {
				s.Exclude = append(s.Exclude, gram.U32String(a))
			} else {
				s.Exclude = append(s.Exclude, fmt.Sprintf("%s/%d", gram.U32String(a), bits))
			}
		}
	}
	return s
}

func min(a, b int) int {
	if a < b {
		return a
	}
	return b
}

func TestC01Commands(t *testing.T) {
	budget := kit.EnvInt("C01_BUDGET", 4000)
	kit.Run(t, kit.Spec[c01Case]{
		Prop: "C01",
		Rule: fmt.Sprintf("full packet-scan commands (arp, icmp, udp, tcp, tcp syn/fin/null/xmas, tcp --flags) executed in-process on the virtual wire with a generated valid target specification: CIDR (any base, aligned or not, /32../22) x port-range lists (single, adjacent, overlapping, any order, 201..450 ranges => chunks; via -p, --ports-file or both), JSONL file of ip/port pairs, JSONL file of addresses x ports (regular file or stdin), duplicates and ::ffff: spellings, optional --exclude intersecting the target; Ethernet and raw-IP mode; rand seed drawn; <=%d probes per case. Oracle: multiset of (dst ip[,dst port]) decoded from every frame written on every socket = independent denotation of the specification minus exclusions; Execute() returns nil; no error records. non-trivial: >=2 addresses and (>=2 port ranges or port-less scan or pairs file); distinct by case", budget),
		Gen: func(t *rapid.T) c01Case {
			c := c01Case{Cmd: rapid.SampledFrom(c01PacketCmds).Draw(t, "cmd"), Seed: rapid.Int64().Draw(t, "seed")}
			base := strings.Fields(c.Cmd)[0]
			c.Spec = genSpec(t, cmdPortless(base), base != "arp", budget)
			c.PortsVia = rapid.SampledFrom([]string{"p", "p", "file", "both"}).Draw(t, "portsvia")
			if c.Spec.HasFile && len(c.Spec.Ports) > 0 && base != "icmp" {
				c.Stdin = rapid.Bool().Draw(t, "stdin")
			}
			if base != "arp" {
				c.VPN = rapid.Bool().Draw(t, "vpn")
				if c.Stdin {
					c.VPN = true // the ARP cache is read from a file here, but keep stdin free of ambiguity
				}
			}
			return c
		},
		Check: c01Check,
	})
}
