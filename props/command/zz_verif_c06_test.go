//go:build verif

package command

import (
	"fmt"
	"testing"

	kit "verifkit"
	"verifkit/gen"
	"verifkit/wire"

	"github.com/google/gopacket"
	"github.com/google/gopacket/layers"
	"github.com/v-byte-cpu/sx/pkg/packet"
	"github.com/v-byte-cpu/sx/pkg/scan"
	"github.com/v-byte-cpu/sx/pkg/scan/arp"
	"github.com/v-byte-cpu/sx/pkg/scan/icmp"
	"github.com/v-byte-cpu/sx/pkg/scan/tcp"
	"pgregory.net/rapid"
)

// C06: receive path - arbitrary frames never crash it and never yield phantom data.

type c06Case struct {
	Reuse  bool     `json:"frames_delivered_in_the_same_memory"`
	Proc   string   `json:"processor"` // tcpflags | tcpsyn | icmp | arp
	VPN    bool     `json:"vpn"`
	Frames [][]byte `json:"frames"`
	Descs  []string `json:"descriptions"`
}

// recChan is a synchronous result sink: records are attributed to the frame being processed.
type recChan struct {
	cur  int
	recs map[int][]scan.Result
}

func (c *recChan) Put(r scan.Result)        { c.recs[c.cur] = append(c.recs[c.cur], r) }
func (c *recChan) Chan() <-chan scan.Result { return nil }

func c06Processor(c c06Case, rc *recChan) packet.Processor {
	switch c.Proc {
	case "tcpflags":
		return tcp.NewScanMethod(tcp.FlagsScanType, nil, rc, tcp.WithScanVPNmode(c.VPN))
	case "tcpsyn":
		return tcp.NewScanMethod(tcp.SYNScanType, nil, rc, tcp.WithScanVPNmode(c.VPN),
			tcp.WithPacketFilterFunc(func(pkt *layers.TCP) bool { return pkt.SYN && pkt.ACK }),
			tcp.WithPacketFlagsFunc(tcp.EmptyFlags))
	case "icmp":
		return icmp.NewPacketProcessor(icmp.ScanType, rc, c.VPN)
	case "arp":
		return arp.NewScanMethod(nil, rc)
	}
	panic("processor " + c.Proc)
}

// c06Allowed decides whether THIS frame may yield the given record.
func c06Allowed(proc string, vpn bool, data []byte, res scan.Result) error {
	f := wire.Decode(data, !vpn)
	switch proc {
	case "tcpflags", "tcpsyn":
		r, ok := res.(*tcp.ScanResult)
		if !ok {
			return fmt.Errorf("record of type %T from a tcp processor", res)
		}
		if f.TCP == nil || f.Stop != "" {
			return fmt.Errorf("record %+v, but the frame has no well-formed IPv4/TCP header chain (decode: %s)", *r, f.Stop)
		}
		ip := f.InnerIP()
		if r.IP != wire.IPString(ip.Src) || r.Port != f.TCP.SrcPort {
			return fmt.Errorf("record %+v, but this frame's TCP segment comes from %s:%d", *r, wire.IPString(ip.Src), f.TCP.SrcPort)
		}
		if proc == "tcpsyn" {
			if f.TCP.Flags&(wire.SYN|wire.ACK) != wire.SYN|wire.ACK {
				return fmt.Errorf("SYN-scan record %+v, but this frame's flags are %q", *r, wire.FlagLetters(f.TCP.Flags))
			}
			if r.Flags != "" {
				return fmt.Errorf("SYN-scan record with flags %q", r.Flags)
			}
		} else if r.Flags != wire.FlagLetters(f.TCP.Flags) {
			return fmt.Errorf("record flags %q, this frame's flags are %q", r.Flags, wire.FlagLetters(f.TCP.Flags))
		}
	case "icmp":
		r, ok := res.(*icmp.ScanResult)
		if !ok {
			return fmt.Errorf("record of type %T from the icmp processor", res)
		}
		if f.ICMP == nil {
			return fmt.Errorf("record %+v/%+v, but the frame has no well-formed IPv4/ICMP header chain (decode: %s)", *r, r.ICMP, f.Stop)
		}
		ip := f.InnerIP()
		if r.ICMP == nil || r.IP != wire.IPString(ip.Src) || r.TTL != ip.TTL || r.ICMP.Type != f.ICMP.Type || r.ICMP.Code != f.ICMP.Code {
			return fmt.Errorf("record %+v/%+v, but this frame has src %s ttl %d type %d code %d", *r, r.ICMP, wire.IPString(ip.Src), ip.TTL, f.ICMP.Type, f.ICMP.Code)
		}
	case "arp":
		r, ok := res.(*arp.ScanResult)
		if !ok {
			return fmt.Errorf("record of type %T from the arp processor", res)
		}
		a := f.ARP
		if a == nil || a.HType != 1 || a.PType != 0x0800 || a.HLen != 6 || a.PLen != 4 {
			return fmt.Errorf("record %+v, but the frame is not an Ethernet/IPv4 ARP packet with 6/4-byte addresses (%s, %+v)", *r, f.Stop, a)
		}
		var spa [4]byte
		copy(spa[:], a.SPA)
		if r.IP != wire.IPString(spa) || r.MAC != wire.MACString(a.SHA) {
			return fmt.Errorf("record %+v, but this frame's sender is %s / %s", *r, wire.IPString(spa), wire.MACString(a.SHA))
		}
	}
	return nil
}

func c06Check(c c06Case) *kit.Verdict {
	v := &kit.Verdict{Units: len(c.Frames)}
	v.Label("proc=%s vpn=%v", c.Proc, c.VPN)
	rc := &recChan{recs: map[int][]scan.Result{}}
	p := c06Processor(c, rc)
	decodedPastLink, laterLacks := false, false
	nrec := 0
	// the zero-copy ring hands out the same memory again and again: with Reuse every frame is delivered in the same slot
	// (whatever the processor kept pointing into an earlier frame now shows the current one)
	slot := make([]byte, 4096)
	if c.Reuse {
		v.Label("reused-frame-memory")
	}
	for i, fr := range c.Frames {
		// exact-capacity copy: reslicing past the frame panics instead of reading a neighbour
		data := make([]byte, len(fr))
		if c.Reuse && len(fr) <= len(slot) {
			data = slot[:len(fr)]
		}
		copy(data, fr)
		data = data[:len(data):len(data)]
		rc.cur = i
		func() {
			defer func() {
				if r := recover(); r != nil {
					v.Failf("frame %d (%s) crashed the processor: %v; frame %x", i, c.desc(i), r, fr)
				}
			}()
			_ = p.ProcessPacketData(data, &gopacket.CaptureInfo{Length: len(data), CaptureLength: len(data)})
		}()
		if v.Err != nil {
			return v
		}
		recs := rc.recs[i]
		nrec += len(recs)
		if len(recs) > 1 {
			return v.Failf("frame %d (%s) produced %d records", i, c.desc(i), len(recs))
		}
		f := wire.Decode(fr, !c.VPN && c.Proc != "arp" || c.Proc == "arp")
		if f.TCP != nil || f.ICMP != nil || f.ARP != nil {
			decodedPastLink = true
		} else if decodedPastLink {
			laterLacks = true
		}
		for _, r := range recs {
			if err := c06Allowed(c.Proc, c.VPN && c.Proc != "arp", fr, r); err != nil {
				return v.Failf("frame %d (%s): %v\nframe %x\nprevious frame %x", i, c.desc(i), err, fr, c.prev(i))
			}
		}
	}
	// records are printed later, by another goroutine: whatever was emitted for frame i must still describe frame i
	// after all later frames have been processed (nothing in a record may alias memory the processor reuses)
	for i, fr := range c.Frames {
		for _, r := range rc.recs[i] {
			if err := c06Allowed(c.Proc, c.VPN && c.Proc != "arp", fr, r); err != nil {
				return v.Failf("frame %d (%s): its record changed after later frames were processed: %v\nframe %x", i, c.desc(i), err, fr)
			}
		}
	}
	if nrec > 0 {
		v.Label("with-records")
	}
	v.NonTrivial = decodedPastLink && laterLacks
	return v
}

func (c c06Case) desc(i int) string {
	if i < len(c.Descs) {
		return c.Descs[i]
	}
	return "?"
}

func (c c06Case) prev(i int) []byte {
	if i > 0 {
		return c.Frames[i-1]
	}
	return nil
}

func c06GenFrame(t *rapid.T, proc string, eth bool) ([]byte, string) {
	own := map[string]string{"tcpflags": "tcp", "tcpsyn": "tcp", "icmp": "icmp", "arp": "arp"}[proc]
	kind := own
	switch rapid.IntRange(0, 5).Draw(t, "other-kind") {
	case 0, 1:
		kind = gen.AllKinds[kit.Uniform(t, "kind", len(gen.AllKinds))]
	case 2:
		// consistently built datagrams without a complete transport header (short, non-first fragment), plain or nested
		kind = gen.OddKinds[kit.Uniform(t, "oddkind", len(gen.OddKinds))]
	}
	fr := gen.ValidFrame(t, kind, gen.FrameOpts{Ethernet: eth, DstIP: [4]byte{10, 0, 0, 1}, DstMAC: [6]byte{2, 0, 0, 0, 0, 1}})
	desc := kind
	nm := rapid.SampledFrom([]int{0, 0, 1, 1, 1, 2, 3}).Draw(t, "nmut")
	for i := 0; i < nm; i++ {
		var op string
		fr, op = gen.Mutate(t, fr, eth)
		desc += "+" + op
	}
	return fr, desc
}

func c06Gen(t *rapid.T) c06Case {
	c := c06Case{Proc: rapid.SampledFrom([]string{"tcpflags", "tcpsyn", "icmp", "arp"}).Draw(t, "proc")}
	if c.Proc != "arp" {
		c.VPN = rapid.Bool().Draw(t, "vpn")
	}
	c.Reuse = rapid.Bool().Draw(t, "reuse")
	n := rapid.IntRange(1, 12).Draw(t, "nframes")
	for i := 0; i < n; i++ {
		fr, d := c06GenFrame(t, c.Proc, !c.VPN)
		c.Frames = append(c.Frames, fr)
		c.Descs = append(c.Descs, d)
	}
	return c
}

func TestC06Frames(t *testing.T) {
	kit.Run(t, kit.Spec[c06Case]{
		Prop:  "C06",
		Rule:  "sequences of 1..12 frames fed to ONE processor instance (tcp flags / tcp syn / icmp(udp) / arp; Ethernet and raw-IP mode): each frame is a well-formed frame of a drawn kind (own protocol half of the time; else tcp/udp/icmp/arp/ipv6/vlan/IP-in-IP 1..3 levels/other protocol, with IP+TCP options; or a consistently built datagram that ends inside/before its transport header or is a non-first fragment, plain or nested in IP-in-IP) with 0..3 structural mutations applied at a drawn level of the IP-in-IP chain (truncate anywhere, IHL, total length, protocol, data offset, fragment bits, version, trailing garbage, bit flips, ARP sizes/types, ethertype, cut inside L4, random bytes), delivered in exact-capacity slices, either each in fresh memory or all in the same memory slot (as the zero-copy ring does). Oracle (independent decoder): no panic, <=1 record per frame, a record only if THIS frame has the complete header chain and every record field equals this frame's bytes. non-trivial: a frame decoding past the link layer followed later by one lacking the transport header; distinct by case",
		Gen:   c06Gen,
		Check: c06Check,
	})
}

// native fuzz targets (thorough tier): the same oracle inside, on a two-frame sequence (valid frame, then the fuzzed one)
func c06FuzzOne(t *testing.T, proc string, vpn bool, prime, data []byte) {
	c := c06Case{Proc: proc, VPN: vpn, Frames: [][]byte{prime, data}, Descs: []string{"prime", "fuzzed"}}
	if v := c06Check(c); v.Err != nil {
		t.Fatalf("property C06 violated: %v", v.Err)
	}
}

func c06Seeds() (eth, raw [][]byte) {
	src, dst := [4]byte{10, 0, 0, 9}, [4]byte{10, 0, 0, 1}
	e := wire.Eth{Dst: [6]byte{2, 0, 0, 0, 0, 1}, Src: [6]byte{2, 0, 0, 0, 0, 9}, Type: wire.EtherIPv4}.Bytes()
	tcpd := wire.IPv4{ID: 1, Flags: 2, TTL: 64, Proto: 6, Src: src, Dst: dst}.Bytes(wire.TCP{SrcPort: 80, DstPort: 40000, Flags: wire.SYN | wire.ACK, Window: 100}.Bytes(src, dst, nil))
	icmpd := wire.IPv4{ID: 1, Flags: 2, TTL: 64, Proto: 1, Src: src, Dst: dst}.Bytes(wire.ICMP{Type: 0}.Bytes([]byte("abcdefgh")))
	udpd := wire.IPv4{ID: 1, Flags: 2, TTL: 64, Proto: 17, Src: src, Dst: dst}.Bytes(wire.UDP{SrcPort: 53, DstPort: 40000}.Bytes(src, dst, []byte("x")))
	ipip := wire.IPv4{ID: 1, Flags: 2, TTL: 64, Proto: 4, Src: src, Dst: dst}.Bytes(udpd)
	frag := wire.IPv4{ID: 1, Flags: 1, FragOff: 3, TTL: 64, Proto: 6, Src: src, Dst: dst}.Bytes([]byte("12345678"))
	raw = [][]byte{tcpd, icmpd, udpd, ipip, frag, tcpd[:24], icmpd[:27], {}, {0x45}}
	for _, r := range raw {
		eth = append(eth, append(append([]byte(nil), e...), r...))
	}
	ea := wire.Eth{Dst: [6]byte{2, 0, 0, 0, 0, 1}, Src: [6]byte{2, 0, 0, 0, 0, 9}, Type: wire.EtherARP}.Bytes()
	a := wire.ARP{HType: 1, PType: 0x0800, HLen: 6, PLen: 4, Op: 2, SHA: []byte{2, 0, 0, 0, 0, 9}, SPA: src[:], THA: []byte{2, 0, 0, 0, 0, 1}, TPA: dst[:]}.Bytes()
	eth = append(eth, append(append([]byte(nil), ea...), a...))
	for _, sz := range [][2]byte{{0, 0}, {128, 124}, {8, 4}, {6, 16}, {255, 255}, {3, 4}} {
		b := append(append([]byte(nil), ea...), a...)
		b[14+4], b[14+5] = sz[0], sz[1]
		eth = append(eth, b)
	}
	return
}

func FuzzC06TCP(f *testing.F) {
	eth, raw := c06Seeds()
	for _, s := range eth {
		f.Add(s, false)
	}
	for _, s := range raw {
		f.Add(s, true)
	}
	f.Fuzz(func(t *testing.T, data []byte, vpn bool) {
		prime := eth[0]
		if vpn {
			prime = raw[0]
		}
		c06FuzzOne(t, "tcpflags", vpn, prime, data)
	})
}

func FuzzC06ICMP(f *testing.F) {
	eth, raw := c06Seeds()
	for _, s := range eth {
		f.Add(s, false)
	}
	for _, s := range raw {
		f.Add(s, true)
	}
	f.Fuzz(func(t *testing.T, data []byte, vpn bool) {
		prime := eth[1]
		if vpn {
			prime = raw[1]
		}
		c06FuzzOne(t, "icmp", vpn, prime, data)
	})
}

func FuzzC06ARP(f *testing.F) {
	eth, _ := c06Seeds()
	for _, s := range eth {
		f.Add(s)
	}
	f.Fuzz(func(t *testing.T, data []byte) {
		c06FuzzOne(t, "arp", false, eth[len(eth)-7], data)
	})
}

// engine level: the whole command on the virtual wire under a burst of replies, each followed by a runt of itself -
// every frame processed by the real receive path (receiver goroutines, result hand-off, logger) exactly as in a scan.
func TestC06Burst(t *testing.T) {
	kit.Run(t, kit.Spec[c03BurstCase]{
		Prop: "C06",
		Rule: "arp / icmp / tcp fin / tcp syn commands on the virtual wire: 500..6000 distinct reply frames (ICMP types/codes, TTLs, ports, MACs varying frame by frame), each followed by a runt (the same frame cut inside its network or transport header), in half of the cases every 7th reply longer on the wire than the capture length (4000 bytes of data, padded ARP), arrive in one burst; stdout consumer slow for 200 ms. Oracle: the multiset of printed records equals one record per complete frame with exactly that frame's fields (independent decoder) - no record for a runt, none mixing fields of two frames, none lost or doubled. non-trivial: > 2000 replies; distinct by case",
		Gen: func(t *rapid.T) c03BurstCase {
			return c03BurstCase{Cmd: rapid.SampledFrom([]string{"arp", "icmp", "icmp", "tcp fin", "tcp syn"}).Draw(t, "cmd"), Replies: rapid.SampledFrom([]int{500, 2100, 3000, 6000}).Draw(t, "replies"),
				SlowUs: rapid.SampledFrom([]int{50, 120}).Draw(t, "slow"), Seed: rapid.Int64().Draw(t, "seed"), Runts: true, Jumbo: rapid.Bool().Draw(t, "jumbo")}
		},
		Check: c03BurstCheck,
	})
}
