//go:build verif

package command

import (
	"bytes"
	"fmt"
	"io"
	"math/rand"
	"os"
	"os/signal"
	"runtime"
	"strings"
	"sync"
	"syscall"
	"time"

	"verifkit/vwire"
)

// cmdwire: full commands (newRootCmd().Execute()) in-process on the virtual wire.
// One run at a time per process: os.Stdin/Stdout/Stderr are swapped for pipes for the duration.

func init() {
	// SIGINT must never kill the test process: sx registers its own handler only while a command runs.
	ch := make(chan os.Signal, 16)
	signal.Notify(ch, os.Interrupt)
	go func() {
		for range ch {
		}
	}()
}

type cmdRun struct {
	Args    []string
	Stdin   *string // nil: empty pipe closed at once
	World   *vwire.World
	Seed    int64
	Timeout time.Duration // hard limit for Execute() to return (default 60s)
	// a consumer of stdout that is slow for a while: during SlowFor after the first byte, reads take 256 bytes each and pause SlowPause
	SlowFor   time.Duration
	SlowPause time.Duration
}

type cmdResult struct {
	Err        error
	Hung       bool
	Goroutines string
	Stdout     string
	Stderr     string
	Started    time.Time
	Returned   time.Time
	// bytes that appeared on stdout/stderr after Execute() returned (observed for a short while)
	LateStdout string
	LateStderr string
	Sockets    []vwire.SocketInfo
	Writes     []vwire.Write
}

type pipeCapture struct {
	mu   sync.Mutex
	buf  bytes.Buffer
	done chan struct{}
}

func capture(r *os.File) *pipeCapture { return captureSlow(r, 0, 0) }

func captureSlow(r *os.File, slowFor, pause time.Duration) *pipeCapture {
	c := &pipeCapture{done: make(chan struct{})}
	go func() {
		defer close(c.done)
		b := make([]byte, 64*1024)
		var first time.Time
		for {
			buf := b
			if slowFor > 0 && (first.IsZero() || time.Since(first) < slowFor) {
				buf = b[:256]
				if !first.IsZero() {
					time.Sleep(pause)
				}
			}
			n, err := r.Read(buf)
			if n > 0 && first.IsZero() {
				first = time.Now()
			}
			if n > 0 {
				c.mu.Lock()
				c.buf.Write(b[:n])
				c.mu.Unlock()
			}
			if err != nil {
				return
			}
		}
	}()
	return c
}

func (c *pipeCapture) String() string {
	c.mu.Lock()
	defer c.mu.Unlock()
	return c.buf.String()
}

var cmdMu sync.Mutex

const cmdReturnMark = "\x00<<verif: Execute returned>>\x00"

func runCmd(r cmdRun) *cmdResult {
	cmdMu.Lock()
	defer cmdMu.Unlock()
	res := &cmdResult{}
	if r.Timeout == 0 {
		r.Timeout = 60 * time.Second
	}
	oldIn, oldOut, oldErr := os.Stdin, os.Stdout, os.Stderr
	inR, inW, _ := os.Pipe()
	outR, outW, _ := os.Pipe()
	errR, errW, _ := os.Pipe()
	os.Stdin, os.Stdout, os.Stderr = inR, outW, errW
	restore := func() { os.Stdin, os.Stdout, os.Stderr = oldIn, oldOut, oldErr }
	go func() {
		if r.Stdin != nil {
			io.WriteString(inW, *r.Stdin)
		}
		inW.Close()
	}()
	outC, errC := captureSlow(outR, r.SlowFor, r.SlowPause), capture(errR)
	if r.World == nil {
		r.World = vwire.NewWorld(vwire.Scenario{})
	}
	vwire.Install(r.World)
	rand.Seed(r.Seed)
	cmd := newRootCmd("verif")
	cmd.SetArgs(r.Args)
	done := make(chan error, 1)
	res.Started = time.Now()
	go func() {
		defer func() {
			if p := recover(); p != nil {
				done <- fmt.Errorf("PANIC in Execute: %v", p)
			}
		}()
		done <- cmd.Execute()
	}()
	select {
	case res.Err = <-done:
		res.Returned = time.Now()
	case <-time.After(r.Timeout):
		res.Hung = true
		res.Returned = time.Now()
		buf := make([]byte, 1<<20)
		res.Goroutines = string(buf[:runtime.Stack(buf, true)])
		// try to unblock: cancel through SIGINT and close the sockets
		syscall.Kill(syscall.Getpid(), syscall.SIGINT)
		select {
		case <-done:
		case <-time.After(5 * time.Second):
		}
	}
	// mark the moment of the return inside both streams (pipes are FIFO: whatever is read after the mark was
	// written after Execute() returned), then watch for a short while
	outW.WriteString(cmdReturnMark)
	errW.WriteString(cmdReturnMark)
	time.Sleep(15 * time.Millisecond)
	restore()
	outW.Close()
	errW.Close()
	<-outC.done
	<-errC.done
	outR.Close()
	errR.Close()
	inR.Close()
	split := func(all string) (string, string) {
		if i := strings.Index(all, cmdReturnMark); i >= 0 {
			return all[:i], all[i+len(cmdReturnMark):]
		}
		return all, ""
	}
	res.Stdout, res.LateStdout = split(outC.String())
	res.Stderr, res.LateStderr = split(errC.String())
	r.World.Finish()
	vwire.Install(nil)
	for _, s := range r.World.SocketList() {
		res.Sockets = append(res.Sockets, s.Info())
	}
	res.Writes = r.World.AllWrites()
	return res
}

func sendSIGINT() { syscall.Kill(syscall.Getpid(), syscall.SIGINT) }

// withStdin runs f with os.Stdin replaced by a pipe carrying content.
func withStdin(content string, f func()) {
	cmdMu.Lock()
	defer cmdMu.Unlock()
	old := os.Stdin
	r, w, _ := os.Pipe()
	os.Stdin = r
	go func() {
		io.WriteString(w, content)
		w.Close()
	}()
	defer func() {
		os.Stdin = old
		r.Close()
	}()
	f()
}
