//go:build verif

package command

import (
	"fmt"
	"net"
	"strings"
	"sync"
	"sync/atomic"
	"syscall"
	"testing"
	"time"

	kit "verifkit"

	"pgregory.net/rapid"
)

// C09 at command level: `sx socks --timeout T` applies T to the connect and to every data operation.

type c09CmdCase struct {
	TimeoutMs int    `json:"timeout_ms"`
	Server    string `json:"server"` // backlog | stall | onebyte | proxy
	Targets   int    `json:"targets"`
}

var (
	c09cBLOnce sync.Once
	c09cBLPort int
)

func c09cBacklogPort() int {
	c09cBLOnce.Do(func() {
		fd, err := syscall.Socket(syscall.AF_INET, syscall.SOCK_STREAM, 0)
		if err != nil {
			return
		}
		if syscall.Bind(fd, &syscall.SockaddrInet4{Addr: [4]byte{0, 0, 0, 0}}) != nil || syscall.Listen(fd, 0) != nil {
			return
		}
		sa, _ := syscall.Getsockname(fd)
		port := sa.(*syscall.SockaddrInet4).Port
		for i := 0; i < 3; i++ {
			net.DialTimeout("tcp4", fmt.Sprintf("127.0.0.1:%d", port), 100*time.Millisecond)
		}
		c09cBLPort = port
	})
	return c09cBLPort
}

// jitterWatch measures how late a 2 ms sleeper wakes up while the case runs.
type jitterWatch struct {
	stop chan struct{}
	once sync.Once
	max  int64
}

func startJitterWatch() *jitterWatch {
	j := &jitterWatch{stop: make(chan struct{})}
	go func() {
		for {
			select {
			case <-j.stop:
				return
			default:
			}
			t0 := time.Now()
			time.Sleep(2 * time.Millisecond)
			if late := int64(time.Since(t0) - 2*time.Millisecond); late > atomic.LoadInt64(&j.max) {
				atomic.StoreInt64(&j.max, late)
			}
		}
	}()
	return j
}

func (j *jitterWatch) Stop() time.Duration {
	j.once.Do(func() { close(j.stop) })
	return time.Duration(atomic.LoadInt64(&j.max))
}

// A verdict that rests on timing (the scan took longer than the bound, or a proxy that answers at once was missed because the
// probe ran into its --timeout of 60..200 ms) must repeat in three runs of the same case: on a saturated machine no client
// meets such deadlines.
func c09CmdCheck(c c09CmdCase) *kit.Verdict {
	var v *kit.Verdict
	for i := 0; i < 3; i++ {
		var soft bool
		if v, soft = c09CmdCheckOnce(c); !soft {
			return v
		}
	}
	return v
}

func c09CmdCheckOnce(c c09CmdCase) (vv *kit.Verdict, timingOnly bool) {
	v := &kit.Verdict{Units: c.Targets}
	v.Label("server=%s", c.Server)
	T := time.Duration(c.TimeoutMs) * time.Millisecond
	var port int
	var ln net.Listener
	var conns []net.Conn
	var mu sync.Mutex
	defer func() {
		if ln != nil {
			ln.Close()
		}
		mu.Lock()
		for _, cn := range conns {
			cn.Close()
		}
		mu.Unlock()
	}()
	if c.Server == "backlog" {
		port = c09cBacklogPort()
		if port == 0 {
			return &kit.Verdict{Inconclusive: true}, false
		}
	} else {
		l, err := net.Listen("tcp4", "0.0.0.0:0")
		if err != nil {
			return &kit.Verdict{Inconclusive: true}, false
		}
		ln = l
		port = l.Addr().(*net.TCPAddr).Port
		go func() {
			for {
				cn, err := l.Accept()
				if err != nil {
					return
				}
				mu.Lock()
				conns = append(conns, cn)
				mu.Unlock()
				switch c.Server {
				case "onebyte":
					cn.Write([]byte{5})
				case "proxy":
					cn.Write([]byte{5, 0})
				}
			}
		}()
	}
	bits := 32
	for (1 << uint(32-bits)) < c.Targets {
		bits--
	}
	args := []string{"socks", "--json", "--timeout", T.String(), "--exit-delay", "10ms", "-w", "64", "-p", fmt.Sprint(port), fmt.Sprintf("127.0.%d.0/%d", 10+c.TimeoutMs%100, bits)}
	jw := startJitterWatch()
	res := runCmd(cmdRun{Args: args, Timeout: 60 * time.Second})
	late := jw.Stop()
	line := "sx " + strings.Join(args, " ")
	if res.Hung {
		return v.Failf("%s did not return within 60 s\n%s", line, clipN(res.Goroutines, 2000)), false
	}
	if res.Err != nil {
		return v.Failf("%s: %v", line, res.Err), false
	}
	if late > 250*time.Millisecond {
		return &kit.Verdict{Inconclusive: true}, false // the machine stalled: an upper bound cannot be judged
	}
	elapsed := res.Returned.Sub(res.Started)
	bound := T + 3*T + 10*time.Millisecond + time.Second
	if elapsed > bound {
		return v.Failf("%s\ntook %v although every probe must end within connect timeout %v + three data timeouts (all probes run concurrently; bound incl. exit delay and 1 s slack: %v; worst scheduler lateness observed %v)", line, elapsed, T, bound, late), true
	}
	nrec := strings.Count(res.Stdout, "\n")
	want := 0
	if c.Server == "proxy" {
		want = 1 << uint(32-bits)
	}
	if nrec != want {
		return v.Failf("%s: %d records, expected %d", line, nrec, want), nrec < want
	}
	v.NonTrivial = true
	return v, false
}

func TestC09Command(t *testing.T) {
	kit.Run(t, kit.Spec[c09CmdCase]{
		Prop: "C09",
		Rule: "full socks command with --timeout 60..200 ms over 1..32 loopback targets (64 workers) whose server never accepts (full accept queue), accepts and stalls, sends one byte and stalls, or answers 05 00. Oracle: the command ends within timeout + 3 x timeout + exit delay + 1 s (cases in which a scheduler-lateness monitor saw > 250 ms are discarded); records = answering targets. non-trivial: always; distinct by case",
		Gen: func(t *rapid.T) c09CmdCase {
			return c09CmdCase{TimeoutMs: rapid.SampledFrom([]int{60, 100, 200}).Draw(t, "timeout"), Server: rapid.SampledFrom([]string{"backlog", "stall", "onebyte", "proxy"}).Draw(t, "server"),
				Targets: rapid.SampledFrom([]int{1, 4, 32}).Draw(t, "targets")}
		},
		Check: c09CmdCheck,
	})
}
