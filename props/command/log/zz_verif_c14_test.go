//go:build verif

package log

import (
	"bytes"
	"context"
	"encoding/json"
	"fmt"
	"os"
	"reflect"
	"strings"
	"sync"
	"testing"
	"time"
	"unicode/utf8"

	kit "verifkit"

	"github.com/docker/docker/api/types"
	"github.com/v-byte-cpu/sx/pkg/scan"
	"github.com/v-byte-cpu/sx/pkg/scan/arp"
	"github.com/v-byte-cpu/sx/pkg/scan/docker"
	"github.com/v-byte-cpu/sx/pkg/scan/elastic"
	"github.com/v-byte-cpu/sx/pkg/scan/icmp"
	"github.com/v-byte-cpu/sx/pkg/scan/socks5"
	"github.com/v-byte-cpu/sx/pkg/scan/tcp"
	"pgregory.net/rapid"
)

// C14: JSON output - one complete, faithful object per result, in order; de-duplication by host.

type c14Res struct {
	Kind string `json:"kind"` // arp icmp udp tcpsyn tcpfin tcpnull tcpxmas tcpflags socks elastic docker
	S1   []byte `json:"s1"`   // ip / host
	S2   []byte `json:"s2"`   // mac / flags / proto
	S3   []byte `json:"s3"`   // vendor / name
	N1   uint16 `json:"n1"`   // port
	N2   uint8  `json:"n2"`   // ttl / type
	N3   uint8  `json:"n3"`   // code
	B    bool   `json:"b"`
	Doc  []byte `json:"doc"` // JSON text of a server-supplied object (elastic info / indexes)
}

type c14Case struct {
	Results []c14Res `json:"results"`
	Unique  bool     `json:"unique_logger"`
	// scan errors are logged from another goroutine while results are being written (command/root.go does exactly that)
	ErrorsEvery int `json:"concurrent_error_every_us,omitempty"`
	// results travel through scan.ResultChan (as every scan's results do) to a writer that accepts nothing at first
	ViaResultChan bool `json:"through_result_chan,omitempty"`
	StallMs       int  `json:"writer_stalled_for_ms,omitempty"`
}

// c14Out is the logger's writer: optionally stalled at first, safe to inspect while the logger is writing
type c14Out struct {
	mu    sync.Mutex
	buf   bytes.Buffer
	lines int
	stall time.Duration
	once  sync.Once
}

func (w *c14Out) Write(p []byte) (int, error) {
	w.once.Do(func() { time.Sleep(w.stall) })
	w.mu.Lock()
	defer w.mu.Unlock()
	w.lines += bytes.Count(p, []byte{'\n'})
	return w.buf.Write(p)
}

func (w *c14Out) Lines() int {
	w.mu.Lock()
	defer w.mu.Unlock()
	return w.lines
}

func (w *c14Out) String() string {
	w.mu.Lock()
	defer w.mu.Unlock()
	return w.buf.String()
}

func c14Build(r c14Res) (scan.Result, map[string]interface{}) {
	s1, s2, s3 := string(r.S1), string(r.S2), string(r.S3)
	switch r.Kind {
	case "arp":
		return &arp.ScanResult{IP: s1, MAC: s2, Vendor: s3}, map[string]interface{}{"ip": s1, "mac": s2, "vendor": s3}
	case "icmp", "udp":
		return &icmp.ScanResult{ScanType: r.Kind, IP: s1, TTL: r.N2, ICMP: &icmp.Response{Type: r.N3, Code: uint8(r.N1)}},
			map[string]interface{}{"scan": r.Kind, "ip": s1, "ttl": float64(r.N2),
				"icmp": map[string]interface{}{"type": float64(r.N3), "code": float64(uint8(r.N1))}}
	case "tcpsyn", "tcpfin", "tcpnull", "tcpxmas", "tcpflags":
		want := map[string]interface{}{"scan": r.Kind, "ip": s1, "port": float64(r.N1)}
		if s2 != "" {
			want["flags"] = s2
		}
		return &tcp.ScanResult{ScanType: r.Kind, IP: s1, Port: r.N1, Flags: s2}, want
	case "socks":
		want := map[string]interface{}{"scan": "socks", "version": float64(5), "ip": s1, "port": float64(r.N1)}
		if r.B {
			want["auth"] = true
		}
		return &socks5.ScanResult{ScanType: "socks", Version: 5, IP: s1, Port: r.N1, Auth: r.B}, want
	case "elastic":
		var info, idx map[string]interface{}
		_ = json.Unmarshal(r.Doc, &info)
		if r.B {
			_ = json.Unmarshal(r.Doc, &idx)
		}
		var wi, wx interface{}
		if info != nil {
			wi = info
		}
		if idx != nil {
			wx = idx
		}
		return &elastic.ScanResult{ScanType: "elastic", Proto: s2, Host: s1, Info: info, Indexes: idx},
			map[string]interface{}{"scan": "elastic", "proto": s2, "host": s1, "info": wi, "indexes": wx}
	case "docker":
		res := &docker.ScanResult{ScanType: "docker", Proto: s2, Host: s1}
		res.Info = types.Info{ID: s3, Name: s3, OperatingSystem: s2, KernelVersion: s1, Containers: int(r.N1)}
		res.Version = types.Version{Version: s3, APIVersion: s2, Os: s1}
		return res, map[string]interface{}{"scan": "docker", "proto": s2, "host": s1,
			"info":    map[string]interface{}{"ID": s3, "Name": s3, "OperatingSystem": s2, "KernelVersion": s1, "Containers": float64(r.N1)},
			"version": map[string]interface{}{"Version": s3, "ApiVersion": s2, "Os": s1}}
	}
	panic("kind " + r.Kind)
}

// normalise a string the way JSON can carry it: invalid UTF-8 becomes U+FFFD (runs collapsed on both sides)
func c14Norm(s string) string {
	s = strings.ToValidUTF8(s, "�")
	for strings.Contains(s, "��") {
		s = strings.ReplaceAll(s, "��", "�")
	}
	return s
}

// want ⊆ got, recursively; strings compared after normalisation
func c14Sub(path string, want, got interface{}) error {
	switch w := want.(type) {
	case map[string]interface{}:
		g, ok := got.(map[string]interface{})
		if !ok {
			return fmt.Errorf("%s: want object, got %T", path, got)
		}
		for k, wv := range w {
			gv, ok := g[k]
			if !ok {
				// keys are compared normalised too
				found := false
				for gk, gvv := range g {
					if c14Norm(gk) == c14Norm(k) {
						gv, found = gvv, true
					}
				}
				if !found {
					return fmt.Errorf("%s: key %q missing", path, k)
				}
			}
			if err := c14Sub(path+"."+k, wv, gv); err != nil {
				return err
			}
		}
		return nil
	case []interface{}:
		g, ok := got.([]interface{})
		if !ok || len(g) != len(w) {
			return fmt.Errorf("%s: want array of %d, got %v", path, len(w), got)
		}
		for i := range w {
			if err := c14Sub(fmt.Sprintf("%s[%d]", path, i), w[i], g[i]); err != nil {
				return err
			}
		}
		return nil
	case string:
		g, ok := got.(string)
		if !ok || c14Norm(g) != c14Norm(w) {
			return fmt.Errorf("%s: want %q, got %#v", path, w, got)
		}
		return nil
	default:
		if !reflect.DeepEqual(want, got) {
			return fmt.Errorf("%s: want %#v, got %#v", path, want, got)
		}
		return nil
	}
}

func c14ID(r c14Res) string {
	res, _ := c14Build(r)
	return res.ID()
}

func c14Check(c c14Case) *kit.Verdict {
	v := &kit.Verdict{Units: len(c.Results)}
	kinds := map[string]bool{}
	hostile := false
	for _, r := range c.Results {
		kinds[r.Kind] = true
		for _, s := range [][]byte{r.S1, r.S2, r.S3, r.Doc} {
			if bytes.ContainsAny(s, "\"\\\n\r\t\x00 ") || !utf8.Valid(s) {
				hostile = true
			}
		}
	}
	for k := range kinds {
		v.Label("kind=%s", k)
	}
	if hostile {
		v.Label("hostile-strings")
	}
	if c.Unique {
		v.Label("unique")
	}
	v.NonTrivial = len(c.Results) >= 2 && hostile
	out := &c14Out{stall: time.Duration(c.StallMs) * time.Millisecond}
	c14Stderr.Lock()
	saved := os.Stderr
	if c.ErrorsEvery > 0 {
		// the error records go to the process's stderr: not under test here, and there are many
		if null, err := os.OpenFile(os.DevNull, os.O_WRONLY, 0); err == nil {
			defer null.Close()
			os.Stderr = null
		}
	}
	lg, err := NewLogger(out, "c14", JSON())
	os.Stderr = saved
	c14Stderr.Unlock()
	if err != nil {
		return v.Failf("NewLogger: %v", err)
	}
	var logger Logger = lg
	if c.Unique {
		logger = NewUniqueLogger(lg)
	}
	var wants []map[string]interface{}
	seen := map[string]bool{}
	ch := make(chan scan.Result, 8)
	done := make(chan struct{})
	ctx, cancel := context.WithCancel(context.Background())
	defer cancel()
	var rc scan.ResultChan
	if c.ViaResultChan {
		rc = scan.NewResultChan(ctx, 1000)
		v.Label("through-result-chan")
	}
	go func() {
		defer close(done)
		if rc != nil {
			logger.LogResults(ctx, rc.Chan())
			return
		}
		logger.LogResults(ctx, ch)
	}()
	stopErrs := make(chan struct{})
	errsDone := make(chan struct{})
	go func() {
		defer close(errsDone)
		if c.ErrorsEvery <= 0 {
			return
		}
		for i := 0; ; i++ {
			select {
			case <-stopErrs:
				return
			default:
			}
			logger.Error(fmt.Errorf("scan error %d", i))
			if c.ErrorsEvery > 1 {
				time.Sleep(time.Duration(c.ErrorsEvery) * time.Microsecond)
			}
		}
	}()
	for _, r := range c.Results {
		res, want := c14Build(r)
		if c.Unique {
			id := res.ID()
			if !seen[id] {
				seen[id] = true
				wants = append(wants, want)
			}
		} else {
			wants = append(wants, want)
		}
		if rc != nil {
			rc.Put(res)
		} else {
			ch <- res
		}
	}
	close(ch)
	if rc != nil {
		// the result channel ends with the scan context: wait until everything expected has been written (or 30 s)
		for deadline := time.Now().Add(30 * time.Second); out.Lines() < len(wants) && time.Now().Before(deadline); {
			time.Sleep(2 * time.Millisecond)
		}
		time.Sleep(10 * time.Millisecond)
		cancel()
	}
	select {
	case <-done:
	case <-time.After(30 * time.Second):
		return v.Failf("LogResults did not return after the result channel was closed")
	}
	close(stopErrs)
	<-errsDone
	text := out.String()
	if text != "" && !strings.HasSuffix(text, "\n") {
		return v.Failf("output does not end with a newline: %q", clipS(text))
	}
	lines := strings.Split(text, "\n")
	lines = lines[:len(lines)-1]
	if len(lines) != len(wants) {
		return v.Failf("%d output lines for %d expected records; output %q", len(lines), len(wants), clipS(text))
	}
	for i, l := range lines {
		for _, b := range []byte(l) {
			if b < 0x20 {
				return v.Failf("line %d contains a raw control character: %q", i, clipS(l))
			}
		}
		dec := json.NewDecoder(strings.NewReader(l))
		var obj map[string]interface{}
		if err := dec.Decode(&obj); err != nil {
			return v.Failf("line %d is not a JSON object (%v): %q", i, err, clipS(l))
		}
		if dec.More() {
			return v.Failf("line %d has trailing data: %q", i, clipS(l))
		}
		if err := c14Sub("$", wants[i], obj); err != nil {
			return v.Failf("line %d (%s) does not decode back to the result: %v; line %q", i, c.Results[0].Kind, err, clipS(l))
		}
	}
	return v
}

func clipS(s string) string {
	if len(s) > 400 {
		return s[:300] + "...(" + fmt.Sprint(len(s)) + " bytes)"
	}
	return s
}

var c14Kinds = []string{"arp", "icmp", "udp", "tcpsyn", "tcpfin", "tcpnull", "tcpxmas", "tcpflags", "socks", "elastic", "docker"}

func c14GenString(t *rapid.T, label string) []byte {
	switch rapid.IntRange(0, 8).Draw(t, label+"-class") {
	case 8:
		// text that LOOKS like what an encoder emits: escape sequences spelled out literally (a label holding JSON or Go
		// source), entity-like tokens, format verbs - anything a post-processing step might mistake for its own output
		n := rapid.IntRange(1, 4).Draw(t, label+"-ntok")
		var sb strings.Builder
		for i := 0; i < n; i++ {
			sb.WriteString(rapid.SampledFrom([]string{`\u0026`, `\u003c`, `\u003e`, `\u2028`, `\n`, `\"`, `\\`, `\x00`, `\ud83d`, "&amp;", "&lt;", "%s", "%!d(MISSING)", "${HOME}", "{{.}}", `"}`, `{"a":`, "a", " "}).Draw(t, label+"-tok"))
		}
		return []byte(sb.String())
	case 0:
		return []byte(rapid.SampledFrom([]string{"192.168.0.1", "10.0.0.7", "b0:be:76:40:05:8d", "Apple, Inc.", "sa", "", "http"}).Draw(t, label))
	case 1:
		return []byte(rapid.StringOfN(rapid.RuneFrom([]rune("\"\\\n\r\t\x00\x01\x1f\x7f/<>&'  é\U0001F600ab ")), 0, 12, -1).Draw(t, label))
	case 2:
		return rapid.SliceOfN(rapid.Byte(), 0, 12).Draw(t, label) // arbitrary bytes, mostly invalid UTF-8
	case 3:
		return []byte(rapid.String().Draw(t, label))
	case 4:
		n := rapid.SampledFrom([]int{1000, 5000, 70000}).Draw(t, label+"-len")
		return bytes.Repeat([]byte(rapid.SampledFrom([]string{"x", "\"", "\\", " ", "é"}).Draw(t, label)), n)
	default:
		return []byte(rapid.StringMatching(`[a-zA-Z0-9 .,:_-]{0,20}`).Draw(t, label))
	}
}

func c14GenValue(t *rapid.T, depth int) interface{} {
	k := rapid.IntRange(0, 7).Draw(t, "vkind")
	if depth <= 0 && k >= 6 {
		k = 0
	}
	switch k {
	case 0:
		return string(c14Norm(string(c14GenString(t, "vstr"))))
	case 1:
		return float64(rapid.Int32().Draw(t, "vint"))
	case 2:
		return rapid.Float64Range(-1e9, 1e9).Draw(t, "vfloat")
	case 3:
		return rapid.Bool().Draw(t, "vbool")
	case 4:
		return nil
	case 5:
		return "v"
	case 6:
		n := rapid.IntRange(0, 3).Draw(t, "alen")
		a := make([]interface{}, n)
		for i := range a {
			a[i] = c14GenValue(t, depth-1)
		}
		return a
	default:
		return c14GenObject(t, depth-1)
	}
}

func c14GenObject(t *rapid.T, depth int) map[string]interface{} {
	n := rapid.IntRange(0, 4).Draw(t, "olen")
	m := map[string]interface{}{}
	for i := 0; i < n; i++ {
		key := c14Norm(string(c14GenString(t, "key")))
		if len(key) > 64 {
			key = key[:64]
			key = c14Norm(key)
		}
		m[key] = c14GenValue(t, depth)
	}
	return m
}

func c14GenRes(t *rapid.T, kinds []string, pool [][]byte) c14Res {
	r := c14Res{Kind: rapid.SampledFrom(kinds).Draw(t, "kind")}
	if len(pool) > 0 {
		r.S1 = pool[kit.Uniform(t, "pool", len(pool))]
	} else {
		r.S1 = c14GenString(t, "s1")
	}
	r.S2, r.S3 = c14GenString(t, "s2"), c14GenString(t, "s3")
	r.N1, r.N2, r.N3 = rapid.Uint16().Draw(t, "n1"), rapid.Byte().Draw(t, "n2"), rapid.Byte().Draw(t, "n3")
	r.B = rapid.Bool().Draw(t, "b")
	if r.Kind == "elastic" {
		doc, err := json.Marshal(c14GenObject(t, 3))
		if err != nil {
			doc = []byte(`{"marshal":"failed"}`)
		}
		r.Doc = doc
	}
	return r
}

func TestC14JSON(t *testing.T) {
	kit.Run(t, kit.Spec[c14Case]{
		Prop: "C14",
		Rule: "sequences of 0..300 results of every type (arp, icmp, udp, tcp x5, socks, elastic with nested server-supplied objects, docker) with string fields drawn from: plain, quotes/backslashes/control chars/U+2028/non-BMP, escape sequences and entity tokens spelled out literally (\\u0026, \\n, &amp;, %s ...), arbitrary bytes (invalid UTF-8), very long (to 70k); through the real JSON logger. Oracle: one line per result in order, each line one JSON object (stdlib decoder, no raw control chars, no trailing data) whose documented keys decode back to the fields (invalid UTF-8 compares as U+FFFD). non-trivial: >=2 results and hostile characters present; distinct by case",
		Gen: func(t *rapid.T) c14Case {
			n := rapid.SampledFrom([]int{0, 1, 2, 3, 5, 12, 40, 300}).Draw(t, "n")
			c := c14Case{}
			for i := 0; i < n; i++ {
				c.Results = append(c.Results, c14GenRes(t, c14Kinds, nil))
			}
			return c
		},
		Check: c14Check,
	})
}

var c14Stderr sync.Mutex

func TestC14Backlog(t *testing.T) {
	kit.Run(t, kit.Spec[c14Case]{
		Prop: "C14",
		Rule: "2500..8000 short results (tcp/icmp/arp/udp, sequence number in port and address) produced by one goroutine into scan.NewResultChan(1000) - the hand-off every scan uses - and logged by the JSON logger to a writer that accepts nothing for the first 50..300 ms, so both 1000-slot buffers fill up and the producer blocks; with and without de-duplication. Oracle as TestC14JSON: one faithful line per result, in production order. non-trivial: always; distinct by case",
		Gen: func(t *rapid.T) c14Case {
			n := rapid.SampledFrom([]int{2500, 4000, 8000}).Draw(t, "n")
			c := c14Case{ViaResultChan: true, StallMs: rapid.SampledFrom([]int{50, 150, 300}).Draw(t, "stall"), Unique: rapid.IntRange(0, 3).Draw(t, "unique") == 0}
			kind := rapid.SampledFrom([]string{"tcpsyn", "icmp", "arp", "udp", "tcpflags"}).Draw(t, "kind")
			for i := 0; i < n; i++ {
				c.Results = append(c.Results, c14Res{Kind: kind, S1: []byte(fmt.Sprintf("10.%d.%d.%d", i>>16&255, i>>8&255, i&255)), S2: []byte("02:00:00:00:00:01"), S3: []byte("v"), N1: uint16(i), N2: uint8(i), N3: uint8(i >> 8)})
			}
			return c
		},
		Check: func(c c14Case) *kit.Verdict {
			v := c14Check(c)
			v.NonTrivial = true
			return v
		},
	})
}

func TestC14ConcurrentErrors(t *testing.T) {
	kit.Run(t, kit.Spec[c14Case]{
		Prop: "C14",
		Rule: "as TestC14JSON / TestC14Unique with 300..20000 short results while a second goroutine logs scan errors through the same logger (every 1..200 us), as the scan engine does; same oracle: every result exactly one faithful line, in order. non-trivial: >=2 results; distinct by case",
		Gen: func(t *rapid.T) c14Case {
			n := rapid.SampledFrom([]int{300, 3000, 20000}).Draw(t, "n")
			c := c14Case{Unique: rapid.IntRange(0, 3).Draw(t, "unique") == 0, ErrorsEvery: rapid.SampledFrom([]int{1, 20, 200}).Draw(t, "errors-every-us")}
			kinds := []string{"arp", "icmp", "tcpsyn", "udp", "socks"}
			base := make([]c14Res, 8)
			for i := range base {
				base[i] = c14GenRes(t, kinds, nil)
				for _, f := range []*[]byte{&base[i].S1, &base[i].S2, &base[i].S3} {
					if len(*f) > 40 {
						*f = (*f)[:40]
					}
				}
			}
			for i := 0; i < n; i++ {
				r := base[i%len(base)]
				r.S1 = append(append([]byte{}, r.S1...), []byte(fmt.Sprintf("-%d", i))...)
				r.N1 = uint16(i)
				c.Results = append(c.Results, r)
			}
			return c
		},
		Check: func(c c14Case) *kit.Verdict {
			v := c14Check(c)
			v.NonTrivial = len(c.Results) >= 2
			return v
		},
	})
}

func TestC14Unique(t *testing.T) {
	kit.Run(t, kit.Spec[c14Case]{
		Prop: "C14",
		Rule: "de-duplicating logger (live ARP): sequences of 0..400 results whose host field is drawn from a small pool (1..12 hosts, arbitrary repetition patterns), arp results and mixed types; oracle: output = first occurrence of each distinct ID in input order, each line faithful as in TestC14JSON. non-trivial: >=2 results and hostile characters; distinct by case",
		Gen: func(t *rapid.T) c14Case {
			np := rapid.IntRange(1, 12).Draw(t, "pool")
			pool := make([][]byte, np)
			for i := range pool {
				pool[i] = c14GenString(t, "host")
				if len(pool[i]) > 200 {
					pool[i] = pool[i][:200]
				}
			}
			kinds := []string{"arp"}
			if rapid.IntRange(0, 3).Draw(t, "mixed") == 0 {
				kinds = []string{"arp", "icmp", "tcpsyn", "socks"}
			}
			n := rapid.SampledFrom([]int{0, 1, 2, 5, 30, 150, 400}).Draw(t, "n")
			c := c14Case{Unique: true}
			for i := 0; i < n; i++ {
				r := c14GenRes(t, kinds, pool)
				if len(r.S3) > 100 {
					r.S3 = r.S3[:100]
				}
				c.Results = append(c.Results, r)
			}
			return c
		},
		Check: c14Check,
	})
}

// long histories for the de-duplicating logger: thousands of distinct hosts, each seen again later
type c14LargeCase struct {
	Hosts  int    `json:"distinct_hosts"`
	Rounds int    `json:"rounds"`
	Mix    uint64 `json:"order_seed"`
}

func c14Expand(c c14LargeCase) c14Case {
	out := c14Case{Unique: true}
	x := c.Mix | 1
	next := func(n int) int {
		x ^= x << 13
		x ^= x >> 7
		x ^= x << 17
		return int(x % uint64(n))
	}
	host := func(i int) []byte {
		if c.Hosts > 60000 {
			// whole /16 and /14 networks (172.16.0.0/14)
			return []byte(fmt.Sprintf("172.%d.%d.%d", 16+i>>16&255, i>>8&255, i&255))
		}
		return []byte(fmt.Sprintf("10.%d.%d.%d", i>>16&255, i>>8&255, i&255))
	}
	for r := 0; r < c.Rounds; r++ {
		// every round visits all hosts in a scrambled order, with occasional immediate repeats
		perm := make([]int, c.Hosts)
		for i := range perm {
			perm[i] = i
		}
		for i := len(perm) - 1; i > 0; i-- {
			j := next(i + 1)
			perm[i], perm[j] = perm[j], perm[i]
		}
		for _, h := range perm {
			mac := []byte(fmt.Sprintf("02:00:%02x:%02x:%02x:%02x", r, h>>16&255, h>>8&255, h&255))
			out.Results = append(out.Results, c14Res{Kind: "arp", S1: host(h), S2: mac, S3: []byte("v")})
			if next(16) == 0 {
				out.Results = append(out.Results, c14Res{Kind: "arp", S1: host(h), S2: mac, S3: []byte("again")})
			}
		}
	}
	return out
}

func TestC14UniqueLarge(t *testing.T) {
	kit.Run(t, kit.Spec[c14LargeCase]{
		Prop: "C14",
		Rule: "de-duplicating logger with long histories: 2..6000 distinct hosts, or every address of a /16 or /14 (65536 / 262144 hosts), 2..4 live rounds, each round visiting every host in a scrambled order with occasional immediate repeats (ARP results); oracle: output = each host exactly once, at its first sighting, in order. non-trivial: >=2 hosts; distinct by case",
		Gen: func(t *rapid.T) c14LargeCase {
			return c14LargeCase{Hosts: rapid.SampledFrom([]int{2, 50, 255, 1000, 1024, 1025, 2049, 4097, 6000, 65536, 262144}).Draw(t, "hosts"),
				Rounds: rapid.IntRange(2, 4).Draw(t, "rounds"), Mix: rapid.Uint64().Draw(t, "mix")}
		},
		Check: func(c c14LargeCase) *kit.Verdict {
			v := c14Check(c14Expand(c))
			v.NonTrivial = c.Hosts >= 2
			v.Label("hosts=%s", bucket14(c.Hosts))
			return v
		},
	})
}

func bucket14(n int) string {
	switch {
	case n <= 255:
		return "<=255"
	case n <= 1024:
		return "256..1024"
	case n <= 4096:
		return "1025..4096"
	}
	return ">4096"
}

// native fuzzing over result values: the fuzzer owns the strings (and the server-supplied JSON document)
func FuzzC14JSON(f *testing.F) {
	f.Add(uint8(0), []byte("10.0.0.1"), []byte("00:11:22:33:44:55"), []byte("Vendor \"x\""), []byte(`{"a":1}`), uint16(80), false)
	f.Add(uint8(9), []byte("host\n"), []byte("http\\"), []byte("logstash-%{+YYYY.MM.dd}"), []byte(`{"name":"n\u2028","nested":{"k":[1,2,{"x":null}]}}`), uint16(9200), true)
	f.Add(uint8(3), []byte("\xff\xfe"), []byte("\x00"), []byte("</script>"), []byte(`{}`), uint16(0), false)
	f.Fuzz(func(t *testing.T, kind uint8, s1, s2, s3, doc []byte, n1 uint16, uniq bool) {
		if len(s1)+len(s2)+len(s3)+len(doc) > 1<<16 {
			return
		}
		var probe map[string]interface{}
		if json.Unmarshal(doc, &probe) != nil {
			doc = []byte(`{"fuzz":true}`)
		}
		r := c14Res{Kind: c14Kinds[int(kind)%len(c14Kinds)], S1: s1, S2: s2, S3: s3, N1: n1, N2: uint8(n1), N3: uint8(n1 >> 8), B: uniq, Doc: doc}
		r2 := r
		r2.S1 = append(append([]byte{}, s1...), 'x')
		if v := c14Check(c14Case{Results: []c14Res{r, r2, r}, Unique: uniq}); v.Err != nil {
			t.Fatalf("property C14 violated: %v", v.Err)
		}
	})
}
