//go:build verif

// The checks need pgregory.net/rapid, whose go.mod says "go 1.23"; requiring it raises the go version of the module copy
// the test binaries are built from and with it the runtime's GODEBUG defaults (timer channels, TLS, HTTP, ...). sx's own
// go.mod says go 1.19 and that is what the real binary runs with: pin the defaults of the test binaries to the same.

//go:debug default=go1.19
package log
