//go:build verif

package command

import (
	"context"
	"fmt"
	"github.com/v-byte-cpu/sx/pkg/packet"
	"go.uber.org/ratelimit"
	"net"
	"runtime"
	"sort"
	"sync"
	"sync/atomic"
	"syscall"
	"testing"
	"time"

	kit "verifkit"

	"github.com/google/gopacket"
	"github.com/v-byte-cpu/sx/pkg/scan"
	"github.com/v-byte-cpu/sx/pkg/scan/arp"
	"github.com/v-byte-cpu/sx/pkg/scan/icmp"
	"github.com/v-byte-cpu/sx/pkg/scan/tcp"
	"github.com/v-byte-cpu/sx/pkg/scan/udp"
	"pgregory.net/rapid"
)

// C07: packet pipeline - nothing lost, duplicated or altered before the wire.

type c07Case struct {
	Filler    string `json:"filler"`
	VPN       bool   `json:"vpn"`
	Workers   int    `json:"workers"`
	N         int    `json:"requests"`
	ReqErr    []int  `json:"request_error_at"`
	BuildFail []int  `json:"build_failure_at"`
	WriteFail []int  `json:"write_failure_at"`
	Delay     int    `json:"writer_delay_mode"` // 0 none, 1 Gosched, 2 sleep 20us every 16th, 3 sleep 1ms every 256th
	GenBuf    int    `json:"request_channel_buffer"`
	WriteErr  string `json:"write_failure_kind"`            // "" plain error values | enobufs | eagain | eintr | emsgsize | eperm | enetdown | enxio (bare errno values, as the kernel returns them)
	ErrLagMs  int    `json:"error_reader_starts_after_ms"`  // a consumer of the error stream that lags behind (errors queue up in the 100-slot buffers)
	Rate      string `json:"rate_limited_writer,omitempty"` // the wire is wrapped as the commands do for --rate (count/window)
}

type c07ReqGen struct {
	c    c07Case
	errs map[int]error
}

func c07DstIP(i int) net.IP { return net.IP{10, byte(i >> 16), byte(i >> 8), byte(i)} }

func (g *c07ReqGen) GenerateRequests(ctx context.Context, r *scan.Range) (<-chan *scan.Request, error) {
	out := make(chan *scan.Request, g.c.GenBuf)
	go func() {
		defer close(out)
		for i := 0; i < g.c.N; i++ {
			req := &scan.Request{SrcIP: net.IP{10, 200, 0, 1}, DstIP: c07DstIP(i), SrcMAC: []byte{2, 0, 0, 0, 0, 1},
				DstMAC: []byte{2, 0, 0, 0, 0, 2}, DstPort: uint16(1 + i%65535), Meta: map[string]interface{}{"i": i}}
			if e, bad := g.errs[i]; bad {
				req = &scan.Request{Err: e}
			}
			select {
			case <-ctx.Done():
				return
			case out <- req:
			}
		}
	}()
	return out, nil
}

type c07Filler struct {
	real  scan.PacketFiller
	fail  map[int]error
	mu    sync.Mutex
	built map[string]int // frame bytes -> count
	calls map[int]int
}

func (f *c07Filler) Fill(buf gopacket.SerializeBuffer, r *scan.Request) error {
	i := r.Meta["i"].(int)
	f.mu.Lock()
	f.calls[i]++
	f.mu.Unlock()
	if e, bad := f.fail[i]; bad {
		return e
	}
	if err := f.real.Fill(buf, r); err != nil {
		return err
	}
	f.mu.Lock()
	f.built[string(buf.Bytes())]++
	f.mu.Unlock()
	return nil
}

type c07Wire struct {
	c        c07Case
	fail     map[int]error
	l3       int
	mu       sync.Mutex
	written  map[string]int
	altered  []string
	n        int64
	complete int64
	closed   chan struct{}
}

func (w *c07Wire) WritePacketData(pkt []byte) error {
	entry := string(pkt)
	k := atomic.AddInt64(&w.n, 1)
	switch w.c.Delay {
	case 1:
		runtime.Gosched()
	case 2:
		if k%16 == 0 {
			time.Sleep(20 * time.Microsecond)
		}
	case 3:
		if k%256 == 0 {
			time.Sleep(time.Millisecond)
		}
	}
	exit := string(pkt)
	w.mu.Lock()
	w.written[entry]++
	if exit != entry {
		w.altered = append(w.altered, fmt.Sprintf("%x -> %x", entry, exit))
	}
	w.mu.Unlock()
	var err error
	// which request is this? the destination address encodes the index
	if len(pkt) >= w.l3+20 && w.c.Filler != "arp" {
		d := pkt[w.l3+16 : w.l3+20]
		i := int(d[1])<<16 | int(d[2])<<8 | int(d[3])
		err = w.fail[i]
	} else if w.c.Filler == "arp" && len(pkt) >= 14+28 {
		d := pkt[14+24 : 14+28]
		i := int(d[1])<<16 | int(d[2])<<8 | int(d[3])
		err = w.fail[i]
	}
	atomic.AddInt64(&w.complete, 1)
	return err
}

func (w *c07Wire) ReadPacketData() ([]byte, *gopacket.CaptureInfo, error) {
	<-w.closed
	return nil, nil, syscall.EBADF
}

type c07Method struct {
	scan.PacketSource
}

func (*c07Method) ProcessPacketData([]byte, *gopacket.CaptureInfo) error { return nil }
func (*c07Method) Results() <-chan scan.Result                           { return nil }

func c07RealFiller(c c07Case) scan.PacketFiller {
	switch c.Filler {
	case "tcp":
		return tcp.NewPacketFiller(tcp.WithSYN(), tcp.WithFillerVPNmode(c.VPN))
	case "udp":
		return udp.NewPacketFiller(udp.WithTTL(64), udp.WithIPProtocol(17), udp.WithVPNmode(c.VPN), udp.WithPayload([]byte("payload")))
	case "icmp":
		return icmp.NewPacketFiller(icmp.WithVPNmode(c.VPN))
	}
	return arp.NewPacketFiller()
}

func c07Check(c c07Case) *kit.Verdict {
	v := &kit.Verdict{Units: c.N}
	v.Label("filler=%s", c.Filler)
	v.Label("workers=%s", bucket(c.Workers, 1, 2, 8, 32))
	v.Label("len=%s", bucket(c.N, 0, 1, 100, 1000))
	if c.ErrLagMs > 0 {
		v.Label("lagging-error-consumer")
	}
	nerr := len(c.ReqErr) + len(c.BuildFail) + len(c.WriteFail)
	v.NonTrivial = c.N > 100 && c.Workers >= 2 && nerr >= 1
	mk := func(pos []int, what string) map[int]error {
		m := map[int]error{}
		for _, p := range pos {
			m[p] = fmt.Errorf("%s #%d", what, p)
		}
		return m
	}
	reqErr, buildFail, writeFail := mk(c.ReqErr, "request error"), mk(c.BuildFail, "build failure"), mk(c.WriteFail, "write failure")
	if errno, ok := map[string]syscall.Errno{"enobufs": syscall.ENOBUFS, "eagain": syscall.EAGAIN, "eintr": syscall.EINTR, "emsgsize": syscall.EMSGSIZE,
		"eperm": syscall.EPERM, "enetdown": syscall.ENETDOWN, "enxio": syscall.ENXIO}[c.WriteErr]; ok {
		// a failed write is a failed write whatever the errno: exactly one error, the frame is not written again
		for p := range writeFail {
			writeFail[p] = errno
		}
		v.Label("write-errno=%s", c.WriteErr)
	}
	want := map[string]int{}
	for _, m := range []map[int]error{reqErr, buildFail, writeFail} {
		for _, e := range m {
			want[e.Error()]++
		}
	}
	// a request with a generator error is never built; a failed build is never written
	for p := range reqErr {
		if e, ok := buildFail[p]; ok {
			want[e.Error()]--
		}
		if e, ok := writeFail[p]; ok {
			want[e.Error()]--
		}
	}
	for p := range buildFail {
		if _, dead := reqErr[p]; dead {
			continue
		}
		if e, ok := writeFail[p]; ok {
			want[e.Error()]--
		}
	}
	wantErrs := 0
	for k, n := range want {
		if n <= 0 {
			delete(want, k)
		} else {
			wantErrs += n
		}
	}
	expectWrites := 0
	for i := 0; i < c.N; i++ {
		if reqErr[i] == nil && buildFail[i] == nil {
			expectWrites++
		}
	}

	filler := &c07Filler{real: c07RealFiller(c), fail: buildFail, built: map[string]int{}, calls: map[int]int{}}
	l3 := 14
	if c.VPN && c.Filler != "arp" {
		l3 = 0
	}
	wire := &c07Wire{c: c, fail: writeFail, l3: l3, written: map[string]int{}, closed: make(chan struct{})}
	psrc := scan.NewPacketSource(&c07ReqGen{c: c, errs: reqErr}, scan.NewPacketMultiGenerator(filler, c.Workers))
	var rw packet.ReadWriter = wire
	if c.Rate != "" {
		// as startPacketScanEngine does for --rate
		n, w, err := parseRateLimit(c.Rate)
		if err != nil {
			return v.Failf("harness: rate %q: %v", c.Rate, err)
		}
		rw = packet.NewRateLimitReadWriter(wire, ratelimit.New(n, ratelimit.Per(w)))
		v.Label("rate-limited-writer")
	}
	engine := scan.SetupPacketEngine(rw, &c07Method{PacketSource: psrc})
	ctx, cancel := context.WithCancel(context.Background())
	defer cancel()
	done, errc := engine.Start(ctx, &scan.Range{})

	got := map[string]int{}
	gotN := 0
	var errMu sync.Mutex
	errDone := make(chan struct{})
	go func() {
		defer close(errDone)
		if c.ErrLagMs > 0 {
			time.Sleep(time.Duration(c.ErrLagMs) * time.Millisecond)
		}
		for e := range errc {
			errMu.Lock()
			got[e.Error()]++
			gotN++
			errMu.Unlock()
		}
	}()
	select {
	case <-done:
	case <-time.After(60 * time.Second):
		return v.Failf("completion not signalled after 60s: %d of %d frames written", atomic.LoadInt64(&wire.complete), expectWrites)
	}
	if n := atomic.LoadInt64(&wire.complete); int(n) != expectWrites {
		return v.Failf("completion signalled when %d of %d frames had been handed to the wire", n, expectWrites)
	}
	// errors: wait until all expected ones arrived (bounded), then a grace period for surplus ones
	deadline := time.Now().Add(20 * time.Second)
	for {
		errMu.Lock()
		n := gotN
		errMu.Unlock()
		if n >= wantErrs || time.Now().After(deadline) {
			break
		}
		time.Sleep(200 * time.Microsecond)
	}
	time.Sleep(20 * time.Millisecond)
	cancel()
	close(wire.closed)
	select {
	case <-errDone:
	case <-time.After(30 * time.Second):
		return v.Failf("error stream not closed 30s after cancellation")
	}
	if n := atomic.LoadInt64(&wire.complete); int(n) != expectWrites {
		return v.Failf("%d frames written, expected %d", n, expectWrites)
	}
	wire.mu.Lock()
	defer wire.mu.Unlock()
	filler.mu.Lock()
	defer filler.mu.Unlock()
	if len(wire.altered) > 0 {
		return v.Failf("%d frames changed while the writer held them (buffer reused before the write returned), e.g. %s", len(wire.altered), wire.altered[0])
	}
	if d := diffMultiset(filler.built, wire.written); d != "" {
		return v.Failf("frames written differ from frames built: %s", d)
	}
	for i, n := range filler.calls {
		if n != 1 {
			return v.Failf("request %d was built %d times", i, n)
		}
	}
	if len(filler.calls) != c.N-len(reqErr) {
		return v.Failf("%d requests reached the filler, expected %d", len(filler.calls), c.N-len(reqErr))
	}
	if d := diffMultiset(want, got); d != "" {
		return v.Failf("error stream differs from the failures injected: %s", d)
	}
	return v
}

func bucket(n int, edges ...int) string {
	for i := len(edges) - 1; i >= 0; i-- {
		if n >= edges[i] {
			if i == len(edges)-1 {
				return fmt.Sprintf(">=%d", edges[i])
			}
			return fmt.Sprintf("%d..%d", edges[i], edges[i+1]-1)
		}
	}
	return fmt.Sprintf("<%d", edges[0])
}

func diffMultiset(want, got map[string]int) string {
	var miss, extra []string
	for k, n := range want {
		if got[k] < n {
			miss = append(miss, fmt.Sprintf("%q x%d", clip(printable(k)), n-got[k]))
		}
	}
	for k, n := range got {
		if want[k] < n {
			extra = append(extra, fmt.Sprintf("%q x%d", clip(printable(k)), n-want[k]))
		}
	}
	if len(miss)+len(extra) == 0 {
		return ""
	}
	sort.Strings(miss)
	sort.Strings(extra)
	if len(miss) > 3 {
		miss = append(miss[:3], fmt.Sprintf("... %d more", len(miss)-3))
	}
	if len(extra) > 3 {
		extra = append(extra[:3], fmt.Sprintf("... %d more", len(extra)-3))
	}
	return fmt.Sprintf("missing %v, surplus %v", miss, extra)
}

func printable(s string) string {
	for i := 0; i < len(s); i++ {
		if s[i] < 0x20 || s[i] > 0x7e {
			return fmt.Sprintf("%x", s)
		}
	}
	return s
}

func c07Positions(t *rapid.T, label string, n int) []int {
	if n == 0 {
		return nil
	}
	k := rapid.SampledFrom([]int{0, 0, 1, 2, 5, 120, 400}).Draw(t, label+"-count")
	set := map[int]bool{}
	for i := 0; i < k; i++ {
		switch rapid.IntRange(0, 3).Draw(t, label+"-where") {
		case 0:
			set[0] = true
		case 1:
			set[n-1] = true
		default:
			set[kit.Uniform(t, label, n)] = true
		}
	}
	var out []int
	for p := range set {
		out = append(out, p)
	}
	sort.Ints(out)
	return out
}

func TestC07Pipeline(t *testing.T) {
	maxN := kit.EnvInt("C07_MAXN", 3000)
	kit.Run(t, kit.Spec[c07Case]{
		Prop: "C07",
		Rule: "request stream of length 0..3000 (> every 100-slot buffer) with generator errors, build failures and write failures (plain errors or bare ENOBUFS / EAGAIN / EINTR / EMSGSIZE / EPERM / ENETDOWN / ENXIO) at drawn positions (first, last, anywhere; 0..400 each, i.e. more than the two 100-slot error buffers) x an error consumer that starts at once or lags 20/120 ms x real filler (tcp/udp/icmp/arp, both link modes) x 1..64 packet-building workers x writer delay mode x request channel buffering x the wire optionally wrapped in the rate-limiting writer of --rate, assembled with scan.NewPacketSource/NewPacketMultiGenerator/SetupPacketEngine exactly as the commands do; run under the race detector with GOMAXPROCS varied per shard. Oracle: multiset(frames handed to the wire) = multiset(frames built), entry snapshot = exit snapshot of every write, each request built once, multiset(errors) = injected failures (unique values), completion only after the last write. non-trivial: >100 requests, >=2 workers, >=1 injected error; distinct by case",
		Gen: func(t *rapid.T) c07Case {
			c := c07Case{Filler: rapid.SampledFrom([]string{"tcp", "udp", "icmp", "arp"}).Draw(t, "filler"), VPN: rapid.Bool().Draw(t, "vpn")}
			c.Workers = rapid.SampledFrom([]int{1, 2, 3, 4, 8, 16, 33, 64}).Draw(t, "workers")
			c.N = rapid.SampledFrom([]int{0, 1, 2, 99, 100, 101, 250, 1000, maxN}).Draw(t, "n")
			if c.N > maxN {
				c.N = maxN
			}
			c.ReqErr = c07Positions(t, "reqerr", c.N)
			c.BuildFail = c07Positions(t, "buildfail", c.N)
			c.WriteFail = c07Positions(t, "writefail", c.N)
			c.Delay = rapid.IntRange(0, 3).Draw(t, "delay")
			c.GenBuf = rapid.SampledFrom([]int{0, 1, 100}).Draw(t, "genbuf")
			c.ErrLagMs = rapid.SampledFrom([]int{0, 0, 0, 20, 120}).Draw(t, "errlag")
			c.WriteErr = rapid.SampledFrom([]string{"", "", "enobufs", "eagain", "eintr", "emsgsize", "eperm", "enetdown", "enxio"}).Draw(t, "writeerr")
			if rapid.IntRange(0, 3).Draw(t, "rate") == 0 {
				// fast enough not to stretch the case, slow enough to make the writer wait for its slots
				c.Rate = rapid.SampledFrom([]string{"1000000/s", "20000/s", "50/ms"}).Draw(t, "rate-value")
				if c.N <= 101 {
					c.Rate = rapid.SampledFrom([]string{"2000/s", "20000/s", "1/ms"}).Draw(t, "rate-small")
				}
			}
			return c
		},
		Check: c07Check,
	})
}
