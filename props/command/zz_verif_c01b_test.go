//go:build verif

package command

import (
	"context"
	"fmt"
	"io"
	"math/rand"
	"net"
	"os"
	"strings"
	"sync"
	"syscall"
	"testing"
	"time"

	kit "verifkit"
	"verifkit/gram"

	"github.com/spf13/cobra"
	"github.com/v-byte-cpu/sx/pkg/scan"
	"pgregory.net/rapid"
)

// ---------------------------------------------------------------- C01: generator level, large sizes

type c01GenCase struct {
	CIDR  string           `json:"cidr"`
	Ports []gram.PortRange `json:"ports"`
	Seed  int64            `json:"rand_seed"`
}

// walk the request generator and compare with the denotation using bitmaps (addresses) x per-port counters
func c01GenCheck(c c01GenCase) *kit.Verdict {
	v := &kit.Verdict{}
	p, ok := gram.RefIPv4Target(c.CIDR)
	if !ok {
		return v.Failf("harness: bad cidr %q", c.CIDR)
	}
	v.Label("prefix=/%d", p.Bits)
	nports := 0
	wantPort := map[uint16]int{}
	for _, r := range c.Ports {
		for q := int(r.Start); q <= int(r.End); q++ {
			wantPort[uint16(q)]++
			nports++
		}
	}
	v.Label("ports=%s", bucket(nports, 0, 1, 2, 100, 10000))
	size := p.Size()
	v.Units = int(size) * max(nports, 1)
	v.NonTrivial = size >= 2 && (len(c.Ports) == 0 || len(c.Ports) >= 2)
	_, ipnet, err := net.ParseCIDR(c.CIDR)
	if err != nil {
		return v.Failf("harness: %v", err)
	}
	rand.Seed(c.Seed)
	ctx, cancel := context.WithCancel(context.Background())
	defer cancel()
	r := &scan.Range{DstSubnet: ipnet, SrcIP: net.IP{10, 0, 0, 1}}
	for _, pr := range c.Ports {
		r.Ports = append(r.Ports, &scan.PortRange{StartPort: pr.Start, EndPort: pr.End})
	}
	var reqs <-chan *scan.Request
	if len(c.Ports) == 0 {
		reqs, err = scan.NewIPRequestGenerator(scan.NewIPGenerator()).GenerateRequests(ctx, r)
	} else {
		reqs, err = scan.NewIPPortGenerator(scan.NewIPGenerator(), scan.NewPortGenerator()).GenerateRequests(ctx, r)
	}
	if err != nil {
		return v.Failf("generator refused %s: %v", c.CIDR, err)
	}
	// per (port) a bitmap over the subnet would be too big for many ports: count per address with a small counter
	// array when nports is small, else per-port totals + per-address totals
	perAddr := make([]uint32, size)
	perPort := map[uint16]int{}
	var total uint64
	pairSeen := map[uint64]uint8{}
	trackPairs := uint64(nports)*size <= 1<<22
	for req := range reqs {
		if req.Err != nil {
			return v.Failf("%s: generator produced an error request: %v", c.CIDR, req.Err)
		}
		ip4 := req.DstIP.To4()
		if ip4 == nil {
			return v.Failf("%s: request with address %v", c.CIDR, req.DstIP)
		}
		a := gram.BytesU32(ip4)
		if !p.Contains(a) {
			return v.Failf("%s: request for %s outside the subnet", c.CIDR, gram.U32String(a))
		}
		perAddr[a-p.Base]++
		perPort[req.DstPort]++
		total++
		if trackPairs {
			pairSeen[uint64(a-p.Base)<<16|uint64(req.DstPort)]++
		}
		if total > size*uint64(max(nports, 1)) {
			return v.Failf("%s: more requests than the specification denotes", c.CIDR)
		}
	}
	wantPer := uint32(max(nports, 1))
	for i, n := range perAddr {
		if n != wantPer {
			return v.Failf("%s ports %v: address %s was requested %d times, expected %d", c.CIDR, c.Ports, gram.U32String(p.Base+uint32(i)), n, wantPer)
		}
	}
	if len(c.Ports) > 0 {
		for q, n := range wantPort {
			if perPort[q] != n*int(size) {
				return v.Failf("%s ports %v: port %d was requested %d times, expected %d", c.CIDR, c.Ports, q, perPort[q], n*int(size))
			}
		}
		if len(perPort) != len(wantPort) {
			return v.Failf("%s ports %v: %d distinct ports requested, expected %d", c.CIDR, c.Ports, len(perPort), len(wantPort))
		}
		if trackPairs {
			for k, n := range pairSeen {
				if int(n) != wantPort[uint16(k)] {
					return v.Failf("%s ports %v: pair (%s,%d) requested %d times, expected %d", c.CIDR, c.Ports,
						gram.U32String(p.Base+uint32(k>>16)), uint16(k), n, wantPort[uint16(k)])
				}
			}
		}
	}
	return v
}

func max(a, b int) int {
	if a > b {
		return a
	}
	return b
}

func TestC01Generators(t *testing.T) {
	minBits := kit.EnvInt("C01_MINBITS", 14)
	prodLog2 := kit.EnvInt("C01_PRODUCT_LOG2", 19)
	kit.Run(t, kit.Spec[c01GenCase]{
		Prop: "C01",
		Rule: fmt.Sprintf("scan.NewIPRequestGenerator / NewIPPortGenerator over real IP and port generators: CIDR /32../%d with any base (aligned or not), 0..6 port ranges incl. full 1-65535 and overlapping ones (product <= 2^%d), rand seed drawn. Oracle: per-address and per-port counters and (for products <= 2^22) per-pair counters equal the denotation; nothing outside the subnet. non-trivial: >=2 addresses and (port-less or >=2 ranges); distinct by case", minBits, prodLog2),
		Gen: func(t *rapid.T) c01GenCase {
			bits := minBits + kit.Uniform(t, "bits", 33-minBits)
			a := uint32(kit.UniformInt64(t, "base", 0, 1<<32-1))
			c := c01GenCase{CIDR: fmt.Sprintf("%s/%d", gram.U32String(a), bits), Seed: rapid.Int64().Draw(t, "seed")}
			size := uint64(1) << uint(32-bits)
			if rapid.Bool().Draw(t, "with-ports") {
				budget := (uint64(1) << uint(prodLog2)) / size
				nr := rapid.IntRange(1, 6).Draw(t, "nranges")
				for i := 0; i < nr && budget > 0; i++ {
					w := uint64(1)
					switch rapid.IntRange(0, 3).Draw(t, "w") {
					case 0:
						w = 65535
					case 1:
						w = uint64(rapid.IntRange(1, 3000).Draw(t, "width"))
					}
					if w > budget {
						w = budget
					}
					budget -= w
					start := uint64(kit.UniformInt64(t, "start", 1, 65535))
					if start+w-1 > 65535 {
						start = 65535 - w + 1
					}
					if i > 0 && rapid.IntRange(0, 3).Draw(t, "same") == 0 {
						c.Ports = append(c.Ports, c.Ports[i-1])
						continue
					}
					c.Ports = append(c.Ports, gram.PortRange{Start: uint16(start), End: uint16(start + w - 1)})
				}
			}
			return c
		},
		Check: c01GenCheck,
	})
}

// the widest subnets (/0../7): a pass cannot be walked to its end, but its beginning can be - it must exist, stay inside the
// subnet and not repeat itself
type c01HugeCase struct {
	CIDR   string `json:"cidr"`
	Ports  bool   `json:"with_one_port"`
	Seed   int64  `json:"rand_seed"`
	Prefix int    `json:"requests_examined"`
}

func TestC01HugePrefix(t *testing.T) {
	kit.Run(t, kit.Spec[c01HugeCase]{
		Prop: "C01",
		Rule: "subnets /0../7 with any base address through the real IP (x one port) request generators: the first 20000..60000 requests of a pass must arrive without an error, lie inside the subnet and be pairwise distinct (the pass is then cancelled). non-trivial: always; distinct by case",
		Gen: func(t *rapid.T) c01HugeCase {
			bits := rapid.SampledFrom([]int{0, 0, 1, 1, 2, 3, 5, 7}).Draw(t, "bits")
			a := uint32(kit.UniformInt64(t, "base", 0, 1<<32-1))
			return c01HugeCase{CIDR: fmt.Sprintf("%s/%d", gram.U32String(a), bits), Ports: rapid.Bool().Draw(t, "ports"), Seed: rapid.Int64().Draw(t, "seed"),
				Prefix: rapid.SampledFrom([]int{20000, 60000}).Draw(t, "prefix")}
		},
		Check: func(c c01HugeCase) *kit.Verdict {
			v := &kit.Verdict{Units: c.Prefix, NonTrivial: true}
			p, ok := gram.RefIPv4Target(c.CIDR)
			if !ok {
				return v.Failf("harness: bad cidr %q", c.CIDR)
			}
			v.Label("prefix=/%d", p.Bits)
			_, ipnet, err := net.ParseCIDR(c.CIDR)
			if err != nil {
				return v.Failf("harness: %v", err)
			}
			rand.Seed(c.Seed)
			ctx, cancel := context.WithCancel(context.Background())
			defer cancel()
			r := &scan.Range{DstSubnet: ipnet, SrcIP: net.IP{10, 0, 0, 1}}
			var reqs <-chan *scan.Request
			if c.Ports {
				r.Ports = []*scan.PortRange{{StartPort: 443, EndPort: 443}}
				reqs, err = scan.NewIPPortGenerator(scan.NewIPGenerator(), scan.NewPortGenerator()).GenerateRequests(ctx, r)
			} else {
				reqs, err = scan.NewIPRequestGenerator(scan.NewIPGenerator()).GenerateRequests(ctx, r)
			}
			if err != nil {
				return v.Failf("generator refused %s: %v", c.CIDR, err)
			}
			seen := make(map[uint32]bool, c.Prefix)
			timeout := time.After(60 * time.Second)
			for len(seen) < c.Prefix {
				select {
				case req, ok := <-reqs:
					if !ok {
						return v.Failf("%s: the pass ended after %d requests (the subnet has %d addresses)", c.CIDR, len(seen), p.Size())
					}
					if req.Err != nil {
						return v.Failf("%s: request %d carries an error: %v", c.CIDR, len(seen), req.Err)
					}
					ip4 := req.DstIP.To4()
					if ip4 == nil {
						return v.Failf("%s: request with address %v", c.CIDR, req.DstIP)
					}
					a := gram.BytesU32(ip4)
					if !p.Contains(a) {
						return v.Failf("%s: request for %s outside the subnet", c.CIDR, gram.U32String(a))
					}
					if seen[a] {
						return v.Failf("%s: %s requested twice within the first %d requests", c.CIDR, gram.U32String(a), len(seen))
					}
					if c.Ports && req.DstPort != 443 {
						return v.Failf("%s: request for port %d, the specification has 443 only", c.CIDR, req.DstPort)
					}
					seen[a] = true
				case <-timeout:
					if len(seen) == 0 {
						return v.Failf("%s: no request at all within 60 s", c.CIDR)
					}
					// slow is not wrong: on a saturated machine (generators of earlier cases keep walking their 2^25..2^32
					// addresses after the cancel) 60000 requests can take longer than a minute
					return &kit.Verdict{Inconclusive: true}
				}
			}
			return v
		},
	})
}

// one large subnet per invocation (thorough tier)
func TestC01BigSubnet(t *testing.T) {
	bits := kit.EnvInt("C01_BIG_BITS", 0)
	if bits == 0 {
		t.Skip("no C01_BIG_BITS")
	}
	m := kit.NewManual(t, "C01", "one full pass of the port-less request generator over a /N subnet (N from the driver), counters per address; non-trivial always")
	seed := int64(kit.EnvInt("VERIF_SEED", 1))
	base := uint32(seed*2654435761) >> uint(32-bits) << uint(32-bits)
	c := c01GenCase{CIDR: fmt.Sprintf("%s/%d", gram.U32String(base|0x1234&^(0xffffffff<<uint(32-bits))), bits), Seed: seed}
	m.Record(t, c, c01GenCheck(c))
}

// ---------------------------------------------------------------- C01: application scans (socks, docker, elastic)

type c01AppCase struct {
	Cmd      string    `json:"command"`
	Spec     gram.Spec `json:"spec"`
	PortsVia string    `json:"ports_via"`
	Stdin    bool      `json:"file_from_stdin"`
	Workers  int       `json:"workers"`
	Seed     int64     `json:"rand_seed"`
	// a third of the probes fail the way real probes fail: timeouts (context deadline), refused, reset, EOF
	Faults bool `json:"failing_probes,omitempty"`
}

type c01Recorder struct {
	mu     sync.Mutex
	got    map[gram.Probe]int
	bad    []string
	faults bool
	failed int
}

func c01ProbeFault(ip uint32, port uint16) error {
	h := (ip*2654435761 + uint32(port)*40503) >> 7
	if h%3 != 0 {
		return nil
	}
	where := fmt.Sprintf("verif probe fault %s:%d", gram.U32String(ip), port)
	switch h / 3 % 5 {
	case 0:
		return fmt.Errorf("%s: %w", where, context.DeadlineExceeded)
	case 1:
		return &net.OpError{Op: "dial", Net: "tcp", Err: fmt.Errorf("%s: %w", where, os.ErrDeadlineExceeded)}
	case 2:
		return fmt.Errorf("%s: %w", where, syscall.ECONNREFUSED)
	case 3:
		return fmt.Errorf("%s: %w", where, io.EOF)
	}
	return fmt.Errorf("%s: %w", where, context.Canceled)
}

func (r *c01Recorder) Scan(ctx context.Context, req *scan.Request) (scan.Result, error) {
	r.mu.Lock()
	defer r.mu.Unlock()
	ip4 := req.DstIP.To4()
	if ip4 == nil {
		r.bad = append(r.bad, fmt.Sprint(req.DstIP))
		return nil, nil
	}
	r.got[gram.Probe{IP: gram.BytesU32(ip4), Port: req.DstPort}]++
	if r.faults {
		if err := c01ProbeFault(gram.BytesU32(ip4), req.DstPort); err != nil {
			r.failed++
			return nil, err
		}
	}
	return nil, nil
}

// appCmdOpts parses argv with the real cobra flag set of the command and returns its generic options.
func appCmdOpts(cmdName string, args []string) (*genericScanCmdOpts, []string, error) {
	var cmd *cobra.Command
	var opts *genericScanCmdOpts
	var raw func() error
	switch cmdName {
	case "socks":
		c := newSocksCmd()
		cmd, opts, raw = c.cmd, &c.opts.genericScanCmdOpts, c.opts.parseRawOptions
	case "docker":
		c := newDockerCmd()
		cmd, opts, raw = c.cmd, &c.opts.genericScanCmdOpts, c.opts.parseRawOptions
	case "elastic":
		c := newElasticCmd()
		cmd, opts, raw = c.cmd, &c.opts.genericScanCmdOpts, c.opts.parseRawOptions
	default:
		return nil, nil, fmt.Errorf("command %q", cmdName)
	}
	if err := cmd.ParseFlags(args); err != nil {
		return nil, nil, err
	}
	if err := raw(); err != nil {
		return nil, nil, err
	}
	return opts, cmd.Flags().Args(), nil
}

func c01AppCheck(c c01AppCase) *kit.Verdict {
	v := &kit.Verdict{}
	want, ok := c.Spec.Denote(false)
	if !ok {
		return v.Failf("harness: no denotation")
	}
	v.Units = gram.Total(want)
	v.Label("cmd=%s", c.Cmd)
	if len(c.Spec.Exclude) > 0 {
		v.Label("exclude")
	}
	if c.Spec.HasFile {
		if len(c.Spec.Ports) == 0 {
			v.Label("mode=file-pairs")
		} else if c.Stdin {
			v.Label("mode=file-x-ports-stdin")
		} else {
			v.Label("mode=file-x-ports")
		}
	} else {
		v.Label("mode=cidr")
	}
	naddr := map[uint32]bool{}
	for p := range want {
		naddr[p.IP] = true
	}
	v.NonTrivial = len(naddr) >= 2 && (len(c.Spec.Ports) >= 2 || c.Spec.HasFile && len(c.Spec.Ports) == 0)
	files := &cmdFiles{}
	defer files.cleanup()
	var args []string
	s := c.Spec
	if len(s.Ports) > 0 {
		if c.PortsVia == "file" {
			var sb strings.Builder
			for _, r := range s.Ports {
				sb.WriteString(gram.RenderPortRange(r, false) + "\n")
			}
			args = append(args, "--ports-file", files.write("ports", sb.String()))
		} else {
			args = append(args, "-p", renderPorts(s.Ports))
		}
	}
	var stdin *string
	if s.HasFile {
		var sb strings.Builder
		for _, l := range s.File {
			sb.WriteString(l.Render(len(s.Ports) == 0 || l.Port != 0) + "\n")
		}
		if c.Stdin {
			content := sb.String()
			stdin = &content
			args = append(args, "-f", "-")
		} else {
			args = append(args, "-f", files.write("targets", sb.String()))
		}
	}
	if len(s.Exclude) > 0 {
		args = append(args, "--exclude", files.write("exclude", strings.Join(s.Exclude, "\n")+"\n"))
	}
	args = append(args, "-w", fmt.Sprint(c.Workers))
	if s.CIDR != "" {
		args = append(args, s.CIDR)
	}
	rec := &c01Recorder{got: map[gram.Probe]int{}, faults: c.Faults}
	if c.Faults {
		v.Label("failing-probes")
	}
	var runErr error
	run := func() {
		opts, rest, err := appCmdOpts(c.Cmd, args)
		if err != nil {
			runErr = fmt.Errorf("option parsing: %v", err)
			return
		}
		r, err := opts.parseScanRange(rest)
		if err != nil {
			runErr = fmt.Errorf("scan range: %v", err)
			return
		}
		rand.Seed(c.Seed)
		ctx, cancel := context.WithCancel(context.Background())
		defer cancel()
		engine := opts.newScanEngine(ctx, rec)
		done, errc := engine.Start(ctx, r)
		var errs []string
		ed := make(chan struct{})
		go func() {
			defer close(ed)
			for e := range errc {
				errs = append(errs, e.Error())
			}
		}()
		select {
		case <-done:
		case <-time.After(120 * time.Second):
			runErr = fmt.Errorf("engine did not finish in 120s")
			return
		}
		<-ed
		nfault := 0
		for _, e := range errs {
			if !strings.Contains(e, "verif probe fault") {
				runErr = fmt.Errorf("valid specification but error: %v", e)
				return
			}
			nfault++
		}
		if nfault != rec.failed {
			runErr = fmt.Errorf("%d probes failed, %d errors came out of the engine", rec.failed, nfault)
		}
	}
	if stdin != nil {
		withStdin(*stdin, run)
	} else {
		run()
	}
	line := "sx " + c.Cmd + " " + strings.Join(args, " ")
	if runErr != nil {
		return v.Failf("%s: %v", line, runErr)
	}
	if len(rec.bad) > 0 {
		return v.Failf("%s: probes with non-IPv4 addresses %v", line, rec.bad[:1])
	}
	if d := gram.DiffProbes(want, rec.got); d != "" {
		return v.Failf("%s\nprobes differ from the specification (%d expected, %d made): %s", line, gram.Total(want), gram.Total(rec.got), d)
	}
	return v
}

func TestC01AppScans(t *testing.T) {
	budget := kit.EnvInt("C01_BUDGET", 4000)
	kit.Run(t, kit.Spec[c01AppCase]{
		Prop: "C01",
		Rule: "socks / docker / elastic: argv parsed by the command's own cobra flag set and parseRawOptions/parseScanRange, engine built by genericScanCmdOpts.newScanEngine with a recording Scanner; same specification generator as TestC01Commands (CIDR x ranges, pairs file, addresses x ports from file or stdin, --exclude), workers 1..300; in a third of the cases a third of the probes fail as real probes do (context deadline exceeded, dial timeout, refused, EOF, cancelled). Oracle: multiset of Scan calls = denotation (failing probes included) and one engine error per failed probe. non-trivial as TestC01Commands; distinct by case",
		Gen: func(t *rapid.T) c01AppCase {
			c := c01AppCase{Cmd: rapid.SampledFrom([]string{"socks", "docker", "elastic"}).Draw(t, "cmd"), Seed: rapid.Int64().Draw(t, "seed")}
			c.Spec = genSpec(t, false, true, budget)
			c.PortsVia = rapid.SampledFrom([]string{"p", "file"}).Draw(t, "portsvia")
			if c.Spec.HasFile && len(c.Spec.Ports) > 0 {
				c.Stdin = rapid.Bool().Draw(t, "stdin")
			}
			c.Workers = rapid.SampledFrom([]int{1, 2, 100, 300}).Draw(t, "workers")
			c.Faults = rapid.IntRange(0, 2).Draw(t, "faults") == 0
			return c
		},
		Check: c01AppCheck,
	})
}
