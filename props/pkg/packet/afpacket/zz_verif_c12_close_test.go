//go:build verif

package afpacket

import (
	"bytes"
	"encoding/json"
	"fmt"
	"net"
	"os"
	"os/exec"
	"strings"
	"sync/atomic"
	"syscall"
	"testing"
	"time"

	kit "verifkit"

	"pgregory.net/rapid"
)

// C12 / C16 on the REAL kernel adapter (this binary is built without the virtual-wire replacement): the socket of a scan - or
// of one chunk of a port scan - is closed while the receiver goroutine is still reading from it. Whatever happens next
// (signals, late frames, further reads, further writes) must not crash the process.

type c12CloseCase struct {
	VPN        bool `json:"raw_ip_link_type"`
	Traffic    int  `json:"matching_frames_per_ms_while_open"` // 0: the reader is parked in poll when the socket is closed
	OpenMs     int  `json:"open_for_ms"`
	Signals    int  `json:"signals_after_close"`
	LateFrames int  `json:"late_frames_after_close"`
	Sockets    int  `json:"sockets_one_after_the_other"` // like the chunks of a port scan
}

func c12CloseChild() {
	var c c12CloseCase
	if err := json.Unmarshal([]byte(os.Getenv("VERIF_C12_CLOSE_CASE")), &c); err != nil {
		fmt.Println("CHILD-HARNESS-ERROR", err)
		os.Exit(3)
	}
	exec.Command("ip", "link", "set", "lo", "up").Run()
	conn, err := net.Dial("udp", "127.0.0.1:9")
	if err != nil {
		fmt.Println("CHILD-HARNESS-ERROR", err)
		os.Exit(3)
	}
	var readsAfterClose int64
	for s := 0; s < c.Sockets; s++ {
		ps, err := NewPacketSource("lo", c.VPN)
		if err != nil {
			fmt.Println("CHILD-HARNESS-ERROR open:", err)
			os.Exit(3)
		}
		if err := ps.SetBPFFilter("udp and dst port 9", 1500); err != nil {
			fmt.Println("CHILD-HARNESS-ERROR filter:", err)
			os.Exit(3)
		}
		var closed int32
		go func() { // the receiver loop, as packet.receiver runs it
			for {
				data, _, err := ps.ReadPacketData()
				if err != nil {
					if te, ok := err.(interface{ Timeout() bool }); ok && te.Timeout() || err == syscall.EAGAIN {
						continue
					}
					return
				}
				if atomic.LoadInt32(&closed) == 1 {
					atomic.AddInt64(&readsAfterClose, 1)
				}
				// "process" the frame as a decoder does: read every byte, now and a moment later (data handed out
				// by the adapter must stay readable while it is being processed, whatever happens to the socket)
				snapshot := append([]byte(nil), data...)
				if c.Traffic > 0 {
					time.Sleep(150 * time.Microsecond)
				}
				if !bytes.Equal(snapshot, data) {
					// the memory was unmapped and the address range reused: no fault, but the frame is gone
					fmt.Println("FRAME-MEMORY-CHANGED-WHILE-PROCESSED")
					os.Exit(6)
				}
			}
		}()
		stopTraffic := make(chan struct{})
		if c.Traffic > 0 {
			go func() {
				for {
					select {
					case <-stopTraffic:
						return
					default:
					}
					for i := 0; i < c.Traffic; i++ {
						conn.Write([]byte("frame while the socket is open"))
					}
					time.Sleep(time.Millisecond)
				}
			}()
		}
		time.Sleep(time.Duration(c.OpenMs) * time.Millisecond)
		t0 := time.Now()
		atomic.StoreInt32(&closed, 1)
		ps.Close()
		if d := time.Since(t0); d > 5*time.Second {
			fmt.Printf("CLOSE-TOOK %v\n", d)
			os.Exit(4)
		}
		// the scan goes on (next chunk) or ends; meanwhile the world keeps turning
		for i := 0; i < c.Signals; i++ {
			syscall.Kill(os.Getpid(), syscall.SIGURG)
			time.Sleep(300 * time.Microsecond)
		}
		for i := 0; i < c.LateFrames; i++ {
			conn.Write([]byte("late frame"))
			time.Sleep(300 * time.Microsecond)
		}
		if err := ps.WritePacketData([]byte("0123456789012345678901234567890123456789012345678901234567890123")); err == nil && !c.VPN {
			// a write on a closed socket must fail, not go to whatever descriptor inherited the number
			fmt.Println("WRITE-AFTER-CLOSE-SUCCEEDED")
			os.Exit(5)
		}
		close(stopTraffic)
	}
	time.Sleep(30 * time.Millisecond)
	fmt.Println("SURVIVED")
}

func TestC12RealSocketClose(t *testing.T) {
	if os.Getenv("VERIF_C12_CLOSE_CASE") != "" {
		c12CloseChild()
		return
	}
	kit.Run(t, kit.Spec[c12CloseCase]{
		Prop: "C12",
		Rule: "the real AF_PACKET adapter on lo inside a fresh network namespace (child process): 1..3 sockets opened one after the other (as the chunks of a port scan), each read by a receiver loop that is parked in poll or busy with matching traffic, closed after 5..120 ms; then 0..200 signals, 0..50 late frames and one write hit the process. Oracle: the child survives (exit 0, no fault), Close returns within 5 s, a write after Close fails. non-trivial: signals or late frames after the close; distinct by case",
		Gen: func(t *rapid.T) c12CloseCase {
			return c12CloseCase{VPN: rapid.Bool().Draw(t, "vpn"), Traffic: rapid.SampledFrom([]int{0, 0, 1, 20}).Draw(t, "traffic"),
				OpenMs: rapid.SampledFrom([]int{5, 40, 120}).Draw(t, "open"), Signals: rapid.SampledFrom([]int{0, 20, 200}).Draw(t, "signals"),
				LateFrames: rapid.SampledFrom([]int{0, 5, 50}).Draw(t, "late"), Sockets: rapid.IntRange(1, 3).Draw(t, "sockets")}
		},
		Check: func(c c12CloseCase) *kit.Verdict {
			v := &kit.Verdict{Units: c.Sockets}
			raw, _ := json.Marshal(c)
			cmd := exec.Command("unshare", "-n", os.Args[0], "-test.run", "^TestC12RealSocketClose$")
			cmd.Env = append(os.Environ(), "VERIF_C12_CLOSE_CASE="+string(raw), "VERIF_STATS_DIR=", "VERIF_REPLAY_DIR=", "VERIF_JOURNAL=")
			out, err := cmd.CombinedOutput()
			text := string(out)
			if strings.Contains(text, "CHILD-HARNESS-ERROR") || (err != nil && strings.Contains(text, "unshare")) {
				fmt.Fprintln(os.Stderr, "C12 real-socket infrastructure problem:", clipS(text))
				return &kit.Verdict{Inconclusive: true}
			}
			if strings.Contains(text, "FRAME-MEMORY-CHANGED-WHILE-PROCESSED") {
				return v.Failf("a frame handed out by the adapter changed while it was being processed: its memory was released (socket closed) under the receiver\n%s", clipS(text))
			}
			if err != nil || !strings.Contains(text, "SURVIVED") {
				return v.Failf("the process that closed its AF_PACKET socket(s) while a receiver loop was reading did not survive (%v):\n%s", err, clipS(text))
			}
			v.NonTrivial = c.Signals > 0 || c.LateFrames > 0
			return v
		},
	})
}

func clipS(s string) string {
	if len(s) > 1800 {
		return s[:1800] + "..."
	}
	return s
}
