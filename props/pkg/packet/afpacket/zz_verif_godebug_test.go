//go:build verif

//go:debug default=go1.19
package afpacket
