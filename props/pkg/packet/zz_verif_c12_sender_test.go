//go:build verif

package packet

import (
	"context"
	"errors"
	"fmt"
	"sync/atomic"
	"syscall"
	"testing"
	"time"

	kit "verifkit"

	"pgregory.net/rapid"
)

// C12 at the sender: whatever the wire answers (also a write that fails again and again), a cancelled scan's completion
// signal and error stream come to an end.

type c12SendCase struct {
	N        int    `json:"frames_queued"`
	FailFrom int    `json:"writes_fail_from"`    // 0-based index of the first failing write; -1 never
	Errno    string `json:"write_failure"`       // enobufs | eagain | eintr | eperm | plain
	CancelAt int    `json:"cancel_inside_write"` // the context is cancelled inside this write call (0-based); -1 never
	SlowErrs bool   `json:"error_reader_slow"`
}

type c12Writer struct {
	c      c12SendCase
	calls  int64
	cancel context.CancelFunc
}

func (w *c12Writer) WritePacketData(p []byte) error {
	i := int(atomic.AddInt64(&w.calls, 1)) - 1
	if i == w.c.CancelAt {
		w.cancel()
	}
	if w.c.FailFrom >= 0 && i >= w.c.FailFrom {
		switch w.c.Errno {
		case "enobufs":
			return syscall.ENOBUFS
		case "eagain":
			return syscall.EAGAIN
		case "eintr":
			return syscall.EINTR
		case "eperm":
			return fmt.Errorf("sendto: %w", syscall.EPERM)
		}
		return errors.New("write failed")
	}
	return nil
}

func TestC12Sender(t *testing.T) {
	kit.Run(t, kit.Spec[c12SendCase]{
		Prop: "C12",
		Rule: "packet.NewSender over a scripted wire: 1..300 frames queued, writes failing persistently from a drawn position with ENOBUFS / EAGAIN / EINTR / EPERM / a plain error (or never), the context cancelled inside a drawn write call (or never, then the input is closed), error stream drained at once or slowly. Oracle: the completion signal and the error stream both close within 5 s of the cancellation (or of the end of the input), at most N write calls per frame queued. non-trivial: a cancellation while writes are failing; distinct by case",
		Gen: func(t *rapid.T) c12SendCase {
			c := c12SendCase{N: rapid.SampledFrom([]int{1, 2, 50, 101, 300}).Draw(t, "n"), FailFrom: -1, CancelAt: -1,
				Errno: rapid.SampledFrom([]string{"enobufs", "enobufs", "eagain", "eintr", "eperm", "plain"}).Draw(t, "errno"), SlowErrs: rapid.Bool().Draw(t, "slow-errors")}
			if rapid.IntRange(0, 3).Draw(t, "failing") > 0 {
				c.FailFrom = kit.Uniform(t, "fail-from", c.N)
			}
			if rapid.IntRange(0, 3).Draw(t, "cancelled") > 0 {
				c.CancelAt = kit.Uniform(t, "cancel-at", c.N)
			}
			return c
		},
		Check: func(c c12SendCase) *kit.Verdict {
			v := &kit.Verdict{Units: c.N}
			ctx, cancel := context.WithCancel(context.Background())
			defer cancel()
			w := &c12Writer{c: c, cancel: cancel}
			in := make(chan *BufferData, c.N)
			for i := 0; i < c.N; i++ {
				buf := NewSerializeBuffer()
				b, _ := buf.AppendBytes(20)
				b[0] = byte(i)
				in <- &BufferData{Buf: buf}
			}
			close(in)
			done, errc := NewSender(w).SendPackets(ctx, in)
			nerr := 0
			errsEnded := make(chan struct{})
			go func() {
				defer close(errsEnded)
				for range errc {
					nerr++
					if c.SlowErrs {
						time.Sleep(200 * time.Microsecond)
					}
				}
			}()
			limit := 5*time.Second + time.Duration(c.N)*time.Millisecond
			select {
			case <-done:
			case <-time.After(limit):
				return v.Failf("%d frames queued, writes failing with %s from write %d, cancelled inside write %d: completion not signalled after %v (%d write calls so far)", c.N, c.Errno, c.FailFrom, c.CancelAt, limit, atomic.LoadInt64(&w.calls))
			}
			select {
			case <-errsEnded:
			case <-time.After(limit):
				return v.Failf("%d frames queued, writes failing with %s from write %d, cancelled inside write %d: the error stream did not end within %v", c.N, c.Errno, c.FailFrom, c.CancelAt, limit)
			}
			if calls := int(atomic.LoadInt64(&w.calls)); calls > c.N {
				return v.Failf("%d frames queued but %d write calls", c.N, calls)
			}
			v.NonTrivial = c.CancelAt >= 0 && c.FailFrom >= 0 && c.FailFrom <= c.CancelAt
			return v
		},
	})
}
