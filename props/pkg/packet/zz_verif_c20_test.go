//go:build verif

package packet

import (
	"context"
	"errors"
	"fmt"
	"io"
	"net"
	"os"
	"strings"
	"sync"
	"syscall"
	"testing"
	"time"

	kit "verifkit"

	"github.com/google/gopacket"
	"pgregory.net/rapid"
)

// C20: the receiver under every sequence of read outcomes.
//
// Script symbols: F frame, P frame whose processing fails, Q frame whose processing fails with an error VALUE that the
// read side would classify as transient or terminal (io.EOF, EBADF, EAGAIN, a timeout net.Error, ...), A EAGAIN, T timeout net.Error, R ECONNRESET,
// U unknown error; terminals: E io.EOF, X io.ErrUnexpectedEOF, C io.ErrClosedPipe, B EBADF, Z "use of closed file".
// Cancel >= 0: the context is cancelled synchronously inside read call number Cancel (0-based).

type c20Case struct {
	Script    string `json:"script"`
	Cancel    int    `json:"cancel_in_read"` // -1: no cancellation (script must end with a terminal)
	LazyMs    int    `json:"consumer_starts_after_ms"`
	PauseAt   int    `json:"consumer_pauses_after_n_errors,omitempty"`
	PauseMs   int    `json:"consumer_pause_ms,omitempty"`
	Unbounded bool   `json:"-"`
}

type c20Timeout struct{ i int }

func (e c20Timeout) Error() string   { return fmt.Sprintf("i/o timeout #%d", e.i) }
func (e c20Timeout) Timeout() bool   { return true }
func (e c20Timeout) Temporary() bool { return true }

type c20Reader struct {
	mu      sync.Mutex
	script  string
	pos     int
	cancel  context.CancelFunc
	cancelK int
	buf     []byte
	overrun int
	errs    map[int]error
	ctx     context.Context
}

func (r *c20Reader) ReadPacketData() ([]byte, *gopacket.CaptureInfo, error) {
	r.mu.Lock()
	i := r.pos
	r.pos++
	r.mu.Unlock()
	if i == r.cancelK {
		r.cancel()
	}
	if i >= len(r.script) {
		// the receiver read past the end of the script: remember it and behave like a closed socket
		r.mu.Lock()
		r.overrun++
		r.mu.Unlock()
		if r.cancelK < 0 || i > r.cancelK+1 {
			return nil, nil, syscall.EBADF
		}
		<-r.ctx.Done()
		return nil, nil, syscall.EBADF
	}
	switch r.script[i] {
	case 'F', 'P', 'Q':
		// zero-copy ring: the same buffer is reused, the previous content is destroyed
		for k := range r.buf {
			r.buf[k] = 0xA5
		}
		r.buf = r.buf[:0]
		r.buf = append(r.buf, r.script[i], byte(i>>8), byte(i), 0xEE)
		return r.buf, &gopacket.CaptureInfo{Length: 4, CaptureLength: 4}, nil
	case 'A':
		return nil, nil, c20Wrapped(syscall.EAGAIN, i)
	case 'T':
		return nil, nil, c20Timeout{i}
	case 'R':
		return nil, nil, c20Wrapped(syscall.ECONNRESET, i)
	case 'U':
		return nil, nil, r.errs[i]
	case 'E':
		return nil, nil, io.EOF
	case 'X':
		return nil, nil, io.ErrUnexpectedEOF
	case 'C':
		return nil, nil, io.ErrClosedPipe
	case 'B':
		return nil, nil, syscall.EBADF
	case 'Z':
		return nil, nil, errors.New("read packet: use of closed file")
	}
	panic("bad script symbol")
}

// a would-block / connection-reset failure in the forms the standard library hands them out: the bare errno, the errno
// inside *os.SyscallError inside *net.OpError (what package net returns for a socket read), and annotated with %w -
// sx recognises all of them with errors.Is
func c20Wrapped(e syscall.Errno, i int) error {
	switch i % 4 {
	case 1:
		return &net.OpError{Op: "read", Net: "packet", Err: os.NewSyscallError("recvfrom", e)}
	case 2:
		return &net.OpError{Op: "read", Net: "packet", Err: fmt.Errorf("recvfrom: %w", e)}
	case 3:
		return fmt.Errorf("read packet: %w", e)
	}
	return e
}

type c20Proc struct {
	mu   sync.Mutex
	seen []int // script indices of processed frames, in order
	bad  []string
	errs map[int]error
}

func (p *c20Proc) ProcessPacketData(data []byte, ci *gopacket.CaptureInfo) error {
	p.mu.Lock()
	defer p.mu.Unlock()
	if len(data) != 4 || data[3] != 0xEE || (data[0] != 'F' && data[0] != 'P' && data[0] != 'Q') {
		p.bad = append(p.bad, fmt.Sprintf("%x", data))
		return nil
	}
	i := int(data[1])<<8 | int(data[2])
	p.seen = append(p.seen, i)
	if data[0] == 'P' || data[0] == 'Q' {
		return p.errs[i]
	}
	return nil
}

func c20IsTerminal(b byte) bool { return b == 'E' || b == 'X' || b == 'C' || b == 'B' || b == 'Z' }

func c20Check(c c20Case) *kit.Verdict {
	v := &kit.Verdict{Units: 1}
	// end of the relevant prefix: first terminal or the cancelling read
	end := len(c.Script)
	for i := 0; i < len(c.Script); i++ {
		if c20IsTerminal(c.Script[i]) {
			end = i
			break
		}
	}
	term := end < len(c.Script)
	cancelled := c.Cancel >= 0 && c.Cancel <= end
	if !term && !cancelled {
		return v.Failf("harness: script %q neither ends nor is cancelled", c.Script)
	}
	v.NonTrivial = len(c.Script) >= 3
	if cancelled {
		v.Label("cancelled")
	} else {
		v.Label("terminal=%c", c.Script[end])
	}
	ctx, cancel := context.WithCancel(context.Background())
	defer cancel()
	rd := &c20Reader{script: c.Script, cancel: cancel, cancelK: -1, buf: make([]byte, 0, 16), errs: map[int]error{}, ctx: ctx}
	if cancelled {
		rd.cancelK = c.Cancel
	}
	pr := &c20Proc{errs: map[int]error{}}
	nU := 0
	for i := 0; i < len(c.Script); i++ {
		switch c.Script[i] {
		case 'U':
			nU++
			if i%3 == 0 {
				// errno values that are neither transient (EAGAIN, ECONNRESET, ETIMEDOUT) nor "closed" (EBADF)
				rd.errs[i] = []syscall.Errno{syscall.ENETDOWN, syscall.ENOBUFS, syscall.EIO, syscall.ENXIO, syscall.EPERM, syscall.ENOMEM, syscall.EINVAL}[i%7]
			} else {
				rd.errs[i] = fmt.Errorf("unknown read failure #%d", i)
			}
		case 'P':
			pr.errs[i] = fmt.Errorf("processing failure #%d", i)
		case 'Q':
			// a processing error is a processing error whatever its value: reported, never retried, never terminal
			pr.errs[i] = []error{io.EOF, io.ErrUnexpectedEOF, syscall.EBADF, syscall.EAGAIN, c20Timeout{i}, io.ErrClosedPipe,
				&net.OpError{Op: "write", Err: syscall.ECONNRESET}, errors.New("write udp: use of closed file")}[i%8]
		}
	}
	errc := NewReceiver(rd, pr).ReceivePackets(ctx)
	var got []error
	closed := make(chan struct{})
	go func() {
		defer close(closed)
		if c.LazyMs > 0 {
			time.Sleep(time.Duration(c.LazyMs) * time.Millisecond)
		}
		for e := range errc {
			got = append(got, e)
			if c.PauseMs > 0 && len(got) == c.PauseAt {
				time.Sleep(time.Duration(c.PauseMs) * time.Millisecond)
			}
		}
	}()
	limit := 20*time.Second + time.Duration(nU)*50*time.Millisecond
	select {
	case <-closed:
	case <-time.After(limit):
		return v.Failf("script %q cancel=%d: error channel not closed after %v (reads=%d)", c.Script, c.Cancel, limit, rd.pos)
	}
	rd.mu.Lock()
	reads, overrun := rd.pos, rd.overrun
	rd.mu.Unlock()
	pr.mu.Lock()
	defer pr.mu.Unlock()
	if len(pr.bad) > 0 {
		return v.Failf("script %q: processor saw corrupted frame data %v", c.Script, pr.bad)
	}
	// the mandatory prefix and the optional tail
	must := end
	if cancelled {
		must = c.Cancel // elements returned by the cancelling read and later are optional
	}
	var wantFrames []int
	var wantErrs []error
	for i := 0; i < must; i++ {
		switch c.Script[i] {
		case 'F':
			wantFrames = append(wantFrames, i)
		case 'P', 'Q':
			wantFrames = append(wantFrames, i)
			wantErrs = append(wantErrs, pr.errs[i])
		case 'U':
			wantErrs = append(wantErrs, rd.errs[i])
		}
	}
	if !cancelled {
		if reads != end+1 || overrun != 0 {
			return v.Failf("script %q: %d read calls, expected exactly %d (reading must stop at the terminal %c)", c.Script, reads, end+1, c.Script[end])
		}
		if fmt.Sprint(pr.seen) != fmt.Sprint(wantFrames) {
			return v.Failf("script %q: processed frames %v, expected %v", c.Script, pr.seen, wantFrames)
		}
		if len(got) != len(wantErrs) {
			return v.Failf("script %q: %d errors reported %v, expected %d %v", c.Script, len(got), got, len(wantErrs), wantErrs)
		}
		for i := range got {
			if !c20SameErr(got[i], wantErrs[i]) {
				return v.Failf("script %q: error %d is %v, expected %v", c.Script, i, got[i], wantErrs[i])
			}
		}
		return v
	}
	// cancelled in read number Cancel: at most one more read afterwards
	if reads < c.Cancel+1 || reads > c.Cancel+2 {
		return v.Failf("script %q cancel in read %d: %d read calls", c.Script, c.Cancel, reads)
	}
	if len(pr.seen) < len(wantFrames) || fmt.Sprint(pr.seen[:len(wantFrames)]) != fmt.Sprint(wantFrames) {
		return v.Failf("script %q cancel in read %d: processed %v, expected prefix %v", c.Script, c.Cancel, pr.seen, wantFrames)
	}
	for k, i := range pr.seen[len(wantFrames):] {
		if i < c.Cancel || i >= reads || i >= len(c.Script) || (k > 0 && pr.seen[len(wantFrames)+k-1] >= i) {
			return v.Failf("script %q cancel in read %d: processed %v (unexpected tail)", c.Script, c.Cancel, pr.seen)
		}
	}
	if len(got) < len(wantErrs) {
		// errors produced before the cancellation were handed to the channel before it: they must be there
		return v.Failf("script %q cancel in read %d: errors %v, expected at least %v", c.Script, c.Cancel, got, wantErrs)
	}
	for i := range wantErrs {
		if !c20SameErr(got[i], wantErrs[i]) {
			return v.Failf("script %q cancel in read %d: error %d is %v, expected %v", c.Script, c.Cancel, i, got[i], wantErrs[i])
		}
	}
	if len(got) > len(wantErrs)+2 {
		return v.Failf("script %q cancel in read %d: surplus errors %v", c.Script, c.Cancel, got[len(wantErrs):])
	}
	return v
}

// the reported error is the failure itself or an annotation of it (wrapping is not a violation)
func c20SameErr(got, want error) bool {
	return got == want || errors.Is(got, want) || (got != nil && strings.Contains(got.Error(), want.Error()))
}

const c20Alphabet = "FPQATRU"
const c20Terminals = "EXCBZ"

func TestC20Random(t *testing.T) {
	maxU := kit.EnvInt("C20_MAXU", 12)
	kit.Run(t, kit.Spec[c20Case]{
		Prop: "C20",
		Rule: "random scripts over {F,P,Q,A,T,R,U} of length 0..300 (bursts of >100 reported errors with a consumer that starts late or pauses; one case in 40 a run of 31..130 unknown read failures between frames), ended by a terminal from {EOF,ErrUnexpectedEOF,ErrClosedPipe,EBADF,'use of closed file'} or cancelled inside a drawn read call; scripted zero-copy reader, recording processor; oracle = reference state machine (frames before the end processed once in order, U and P errors once each in order, transients invisible, exactly end+1 reads, channel closes). non-trivial: length>=3; distinct by case",
		Gen: func(t *rapid.T) c20Case {
			var n int
			switch rapid.IntRange(0, 3).Draw(t, "size") {
			case 0:
				n = rapid.IntRange(0, 8).Draw(t, "n")
			case 1:
				n = rapid.IntRange(8, 60).Draw(t, "n")
			default:
				n = rapid.IntRange(60, 300).Draw(t, "n")
			}
			if rapid.IntRange(0, 39).Draw(t, "unknown-burst") == 0 {
				// a long run of unknown failures (an interface flapping) with frames before and after it: every failure
				// reported, reading goes on (each costs the receiver's 5 ms pause, hence rare)
				k := rapid.SampledFrom([]int{31, 32, 33, 40, 64, 101, 130}).Draw(t, "burst")
				b := []byte("F")
				for i := 0; i < k; i++ {
					b = append(b, 'U')
					if rapid.IntRange(0, 3).Draw(t, "with-transient") == 0 {
						b = append(b, "ATR"[kit.Uniform(t, "transient", 3)])
					}
				}
				b = append(b, 'F', 'P', 'F', c20Terminals[kit.Uniform(t, "term", 5)])
				return c20Case{Script: string(b), Cancel: -1}
			}
			heavyP := rapid.Bool().Draw(t, "many-processing-errors")
			b := make([]byte, 0, n+1)
			u := 0
			for i := 0; i < n; i++ {
				s := c20Alphabet[kit.Uniform(t, "sym", len(c20Alphabet))]
				if heavyP && kit.Uniform(t, "p", 3) > 0 {
					s = "PPQ"[kit.Uniform(t, "pq", 3)]
				}
				if s == 'U' {
					if u >= maxU {
						s = 'R'
					}
					u++
				}
				b = append(b, s)
			}
			c := c20Case{Cancel: -1}
			if rapid.IntRange(0, 2).Draw(t, "end") == 0 {
				c.Cancel = kit.Uniform(t, "cancel", n+1)
				if rapid.Bool().Draw(t, "terminal-too") {
					b = append(b, c20Terminals[kit.Uniform(t, "term", 5)])
				}
			} else {
				b = append(b, c20Terminals[kit.Uniform(t, "term", 5)])
				// trailing material after the terminal must never be read
				tail := rapid.IntRange(0, 3).Draw(t, "tail")
				for i := 0; i < tail; i++ {
					b = append(b, "FPQ"[kit.Uniform(t, "tailsym", 3)])
				}
			}
			c.Script = string(b)
			if heavyP && n > 100 {
				// a consumer that is late, or stalls in the middle of a burst beyond the 100-slot buffer
				c.LazyMs = rapid.SampledFrom([]int{0, 0, 5, 30, 120}).Draw(t, "lazy")
				if rapid.Bool().Draw(t, "pause") {
					c.PauseAt = rapid.IntRange(1, 60).Draw(t, "pause-at")
					c.PauseMs = rapid.SampledFrom([]int{5, 40, 150}).Draw(t, "pause-ms")
				}
			}
			return c
		},
		Check: c20Check,
	})
}

// bounded-exhaustive: every script up to length L over the 6 symbols, each with every terminal, and each with
// cancellation inside every read call.
func TestC20Exhaustive(t *testing.T) {
	L := kit.EnvInt("C20_LEN", 3)
	m := kit.NewManual(t, "C20", fmt.Sprintf("bounded-exhaustive: all scripts over {F,P,Q,A,T,R,U} of length 0..%d x (each of the 5 terminals, and cancellation inside each read call 0..len); same oracle as TestC20Random. non-trivial: length>=3 (incl. terminal); distinct by case", L))
	var cases []c20Case
	var rec func(prefix string)
	rec = func(prefix string) {
		for _, tm := range c20Terminals {
			cases = append(cases, c20Case{Script: prefix + string(tm), Cancel: -1})
		}
		for k := 0; k <= len(prefix); k++ {
			cases = append(cases, c20Case{Script: prefix, Cancel: k})
		}
		if len(prefix) == L {
			return
		}
		for _, s := range c20Alphabet {
			rec(prefix + string(s))
		}
	}
	rec("")
	type res struct {
		c c20Case
		v *kit.Verdict
	}
	in := make(chan c20Case)
	out := make(chan res)
	var wg sync.WaitGroup
	for w := 0; w < 32; w++ {
		wg.Add(1)
		go func() {
			defer wg.Done()
			for c := range in {
				out <- res{c, c20Check(c)}
			}
		}()
	}
	go func() {
		for _, c := range cases {
			in <- c
		}
		close(in)
		wg.Wait()
		close(out)
	}()
	var firstFail *res
	for r := range out {
		r := r
		if r.v.Err != nil && firstFail == nil {
			firstFail = &r
			continue
		}
		if r.v.Err == nil {
			m.Record(t, r.c, r.v)
		}
	}
	m.SetExhaustive(firstFail == nil)
	m.Extra("max_script_length", L)
	m.Extra("cases", len(cases))
	if firstFail != nil {
		m.Record(t, firstFail.c, firstFail.v)
	}
}

// native fuzzing over scripts: bytes are folded onto the alphabet, so every input is a script
func FuzzC20Script(f *testing.F) {
	for _, s := range []string{"FE", "FFUE", "FQE", "PPPB", "ATRUFZ", "FTFTFC", "UUUUX", "QQQQE", "FPQATRUE"} {
		f.Add([]byte(s), int16(-1))
		f.Add([]byte(s), int16(1))
	}
	f.Fuzz(func(t *testing.T, raw []byte, cancel int16) {
		if len(raw) > 64 {
			raw = raw[:64]
		}
		all := c20Alphabet + c20Terminals
		b := make([]byte, 0, len(raw)+1)
		nu := 0
		for _, x := range raw {
			c := all[int(x)%len(all)]
			if c == 'U' { // every unknown failure costs a 5 ms pause
				if nu++; nu > 4 {
					c = 'R'
				}
			}
			b = append(b, c)
		}
		c := c20Case{Script: string(b), Cancel: -1}
		if cancel >= 0 {
			c.Cancel = int(cancel) % (len(b) + 1)
		} else {
			c.Script += "E"
		}
		if v := c20Check(c); v.Err != nil {
			t.Fatalf("property C20 violated: %v", v.Err)
		}
	})
}

// Long histories: a socket whose reads fail for longer than any built-in patience, and a consumer of the error stream that
// is away for seconds while more failures are pending than the stream buffers. C20_LONG selects the variant.
func TestC20Long(t *testing.T) {
	variant := kit.EnvInt("C20_LONG", 0)
	kit.Run(t, kit.Spec[c20Case]{
		Prop: "C20",
		Rule: "long histories: (variant 0) a frame, 2200..2600 consecutive unknown read failures (11..13 s at the receiver's 5 ms pause), a frame, EOF - every failure reported once in order, both frames processed, reading goes on until the EOF; (variant 1) a frame, 120..160 unknown read failures, frames (one failing in processing), EOF, while the consumer of the error stream starts only 3.5..6 s later (more failures pending than the stream buffers) - nothing dropped. Oracle = the reference machine of TestC20Random. non-trivial: always; distinct by case",
		Gen: func(t *rapid.T) c20Case {
			if variant == 0 {
				n := rapid.IntRange(2200, 2600).Draw(t, "failures")
				return c20Case{Script: "F" + strings.Repeat("U", n) + "FE", Cancel: -1}
			}
			n := rapid.IntRange(120, 160).Draw(t, "failures")
			return c20Case{Script: "F" + strings.Repeat("U", n) + "FPFE", Cancel: -1, LazyMs: rapid.IntRange(3500, 6000).Draw(t, "consumer-away-ms")}
		},
		Check: c20Check,
	})
}
