//go:build verif

package scan

import (
	"fmt"
	"math"
	"math/big"
	"math/rand"
	"reflect"
	"sync"
	"testing"
	"unsafe"

	kit "verifkit"

	"pgregory.net/rapid"
)

// ---------------------------------------------------------------- C04 (1): black-box permutation

type c04PermCase struct {
	N    int64 `json:"n"`
	Seed int64 `json:"rand_seed"`
}

// interesting sizes around every table row and every power of two below limit
func c04Sizes(limit int64) []int64 {
	var out []int64
	add := func(v int64) {
		if v >= 1 && v <= limit {
			out = append(out, v)
		}
	}
	for k := uint(0); k <= 32; k++ {
		p := int64(1) << k
		add(p - 1)
		add(p)
		add(p + 1)
	}
	for _, g := range cyclicGroups {
		add(g.P - 2)
		add(g.P - 1)
		add(g.P)
		add(g.P + 1)
	}
	return out
}

func c04WalkPermutation(n int64, seed int64) error {
	rand.Seed(seed)
	it, err := newRangeIterator(n)
	if err != nil {
		return fmt.Errorf("n=%d rejected: %v", n, err)
	}
	seen := make([]uint64, n/64+1)
	var count int64
	for {
		v := it.Int()
		if !v.IsInt64() || v.Int64() < 1 || v.Int64() > n {
			return fmt.Errorf("n=%d: value %s outside 1..n after %d values", n, v.String(), count)
		}
		x := v.Int64() - 1
		if seen[x>>6]&(1<<(uint(x)&63)) != 0 {
			return fmt.Errorf("n=%d: value %d repeated after %d values", n, x+1, count)
		}
		seen[x>>6] |= 1 << (uint(x) & 63)
		count++
		if count > n {
			return fmt.Errorf("n=%d: more than n values", n)
		}
		if !it.Next() {
			break
		}
	}
	if count != n {
		return fmt.Errorf("n=%d: iteration stopped after %d values", n, count)
	}
	for i := 0; i < 3; i++ {
		if it.Next() {
			return fmt.Errorf("n=%d: Next() true again after the end", n)
		}
	}
	return nil
}

func TestC04Perm(t *testing.T) {
	limit := int64(kit.EnvInt("C04_MAXN", 1<<20))
	sizes := c04Sizes(limit)
	kit.Run(t, kit.Spec[c04PermCase]{
		Prop: "C04",
		Rule: fmt.Sprintf("n drawn from: boundary sizes (2^k-1,2^k,2^k+1,P-2..P+1 of every table row) and uniform in the interval of a uniformly drawn table row, n<=%d; math/rand seeded with a drawn value; full walk against a bitmap. non-trivial: n>=2; distinct by (n,seed)", limit),
		Gen: func(t *rapid.T) c04PermCase {
			var n int64
			switch rapid.IntRange(0, 2).Draw(t, "kind") {
			case 0:
				n = rapid.SampledFrom(sizes).Draw(t, "boundary")
			default:
				row := kit.Uniform(t, "row", c04Row(limit)+1)
				lo, hi := c04RowRange(row)
				if hi > limit {
					hi = limit
				}
				n = kit.UniformInt64(t, "n", lo, hi)
			}
			return c04PermCase{N: n, Seed: rapid.Int64().Draw(t, "seed")}
		},
		Check: func(c c04PermCase) *kit.Verdict {
			v := &kit.Verdict{NonTrivial: c.N >= 2}
			v.Label("row=%02d", c04Row(c.N))
			v.Err = c04WalkPermutation(c.N, c.Seed)
			return v
		},
	})
}

func c04Row(n int64) int {
	for i, g := range cyclicGroups {
		if g.P > n {
			return i
		}
	}
	return len(cyclicGroups)
}

// ---------------------------------------------------------------- C04 (1b): several iterators alive at the same time
//
// sx keeps many iterators alive together: the port iterator is parked on its channel while an address iterator is
// created and walked for every port (and both may have the same size). Each of them must still be a permutation.

type c04Op struct {
	New   int64 `json:"new_iterator_of_size,omitempty"` // >0: create an iterator of this size
	Iter  int   `json:"advance_iterator,omitempty"`     // else: advance iterator number Iter (mod live) ...
	Steps int   `json:"steps,omitempty"`                // ... by this many values
}

type c04InterleaveCase struct {
	Seed int64   `json:"rand_seed"`
	Ops  []c04Op `json:"ops"`
}

type c04Live struct {
	n     int64
	it    *rangeIterator
	seen  []bool
	count int64
	done  bool
}

func (l *c04Live) take(k int, id int) error {
	for ; k > 0 && !l.done; k-- {
		if l.count > 0 { // the first value is available without Next
			if !l.it.Next() {
				l.done = true
				break
			}
		}
		v := l.it.Int()
		if !v.IsInt64() || v.Int64() < 1 || v.Int64() > l.n {
			return fmt.Errorf("iterator #%d (n=%d): value %s outside 1..n after %d values", id, l.n, v.String(), l.count)
		}
		if l.seen[v.Int64()-1] {
			return fmt.Errorf("iterator #%d (n=%d): value %d repeated after %d values", id, l.n, v.Int64(), l.count)
		}
		l.seen[v.Int64()-1] = true
		l.count++
		if l.count > l.n {
			return fmt.Errorf("iterator #%d (n=%d): more than n values", id, l.n)
		}
	}
	return nil
}

func TestC04Interleaved(t *testing.T) {
	kit.Run(t, kit.Spec[c04InterleaveCase]{
		Prop: "C04",
		Rule: "histories of 2..40 operations {create an iterator of size n (n from a pool of 1..3 sizes in 1..70000, so equal sizes recur), advance a live iterator by 1..2n values}; at the end every iterator is drained. Oracle per iterator: values in 1..n, none repeated, exactly n of them, whatever the other iterators did in between. non-trivial: two iterators of the same size alive together; distinct by case",
		Gen: func(t *rapid.T) c04InterleaveCase {
			np := rapid.IntRange(1, 3).Draw(t, "pool")
			pool := make([]int64, np)
			for i := range pool {
				switch rapid.IntRange(0, 3).Draw(t, "size-class") {
				case 0:
					pool[i] = int64(rapid.IntRange(1, 16).Draw(t, "n"))
				case 1:
					pool[i] = int64(rapid.IntRange(17, 256).Draw(t, "n"))
				case 2:
					pool[i] = int64(rapid.IntRange(257, 5000).Draw(t, "n"))
				default:
					pool[i] = int64(rapid.IntRange(5001, 70000).Draw(t, "n"))
				}
			}
			c := c04InterleaveCase{Seed: rapid.Int64().Draw(t, "seed")}
			nops := rapid.IntRange(2, 40).Draw(t, "nops")
			live := 0
			for i := 0; i < nops; i++ {
				if live == 0 || rapid.IntRange(0, 2).Draw(t, "op") == 0 {
					c.Ops = append(c.Ops, c04Op{New: pool[kit.Uniform(t, "which", np)]})
					live++
					continue
				}
				k := kit.Uniform(t, "iter", live)
				steps := rapid.SampledFrom([]int{1, 2, 3, 10, 100, 1000, 200000}).Draw(t, "steps")
				c.Ops = append(c.Ops, c04Op{Iter: k, Steps: steps})
			}
			return c
		},
		Check: func(c c04InterleaveCase) *kit.Verdict {
			v := &kit.Verdict{}
			rand.Seed(c.Seed)
			var live []*c04Live
			for _, op := range c.Ops {
				if op.New > 0 {
					it, err := newRangeIterator(op.New)
					if err != nil {
						return v.Failf("n=%d rejected: %v", op.New, err)
					}
					for _, l := range live {
						if l.n == op.New && !l.done && l.count < l.n {
							v.NonTrivial = true
						}
					}
					live = append(live, &c04Live{n: op.New, it: it, seen: make([]bool, op.New)})
					continue
				}
				id := op.Iter % len(live)
				if err := live[id].take(op.Steps, id); err != nil {
					v.Err = err
					return v
				}
			}
			for id, l := range live {
				if err := l.take(int(l.n)+2, id); err != nil {
					v.Err = err
					return v
				}
				if l.count != l.n {
					return v.Failf("iterator #%d (n=%d): iteration stopped after %d values", id, l.n, l.count)
				}
			}
			v.Units = len(live)
			return v
		},
	})
}

// ---------------------------------------------------------------- C04 (1c): iterators constructed and walked concurrently
//
// The ports goroutine and the per-port address iterators construct and walk iterators at the same time.

type c04ConcCase struct {
	Sizes  []int64 `json:"sizes_per_goroutine"` // goroutine g keeps constructing and walking iterators of Sizes[g] (and Sizes[g]/2+1 alternately)
	Rounds int     `json:"walks_per_goroutine"`
}

func TestC04Concurrent(t *testing.T) {
	kit.Run(t, kit.Spec[c04ConcCase]{
		Prop: "C04",
		Rule: "2..16 goroutines, each constructing and completely walking 20..400 iterators (or 2000..10000 iterators of tiny sizes 1..40) of its own sizes (n and n/2+1 alternately, n in 1..3000, equal and different sizes across goroutines) at the same time (global math/rand source, as in sx); oracle per walk: a permutation of 1..n. non-trivial: >=2 goroutines with different sizes; distinct by case",
		Gen: func(t *rapid.T) c04ConcCase {
			g := rapid.SampledFrom([]int{2, 4, 8, 16}).Draw(t, "goroutines")
			c := c04ConcCase{Rounds: rapid.SampledFrom([]int{20, 100, 400}).Draw(t, "rounds")}
			hammer := rapid.Bool().Draw(t, "tiny-sizes-many-walks")
			for i := 0; i < g; i++ {
				if hammer {
					c.Sizes = append(c.Sizes, int64(rapid.SampledFrom([]int{1, 2, 3, 40}).Draw(t, "n")))
				} else {
					c.Sizes = append(c.Sizes, int64(rapid.SampledFrom([]int{1, 2, 3, 5, 40, 41, 255, 256, 257, 1000, 3000}).Draw(t, "n")))
				}
			}
			if hammer {
				c.Rounds = rapid.SampledFrom([]int{2000, 10000}).Draw(t, "rounds-hammer")
			}
			return c
		},
		Check: func(c c04ConcCase) *kit.Verdict {
			v := &kit.Verdict{Units: len(c.Sizes) * c.Rounds}
			errs := make(chan error, len(c.Sizes))
			var wg sync.WaitGroup
			for _, n := range c.Sizes {
				n := n
				wg.Add(1)
				go func() {
					defer wg.Done()
					for r := 0; r < c.Rounds; r++ {
						m := n
						if r%2 == 1 {
							m = n/2 + 1
						}
						it, err := newRangeIterator(m)
						if err != nil {
							errs <- fmt.Errorf("n=%d rejected: %v", m, err)
							return
						}
						l := &c04Live{n: m, it: it, seen: make([]bool, m)}
						if err := l.take(int(m)+2, 0); err != nil {
							errs <- fmt.Errorf("while %d goroutines were constructing iterators: %v", len(c.Sizes), err)
							return
						}
						if l.count != m {
							errs <- fmt.Errorf("while %d goroutines were constructing iterators: n=%d: iteration stopped after %d values", len(c.Sizes), m, l.count)
							return
						}
					}
				}()
			}
			wg.Wait()
			close(errs)
			for e := range errs {
				v.Err = e
				return v
			}
			for _, n := range c.Sizes {
				if n != c.Sizes[0] {
					v.NonTrivial = true
				}
			}
			return v
		},
	})
}

// c04BigField reads a *big.Int (or integer) field of the iterator by name
func c04BigField(it interface{}, name string) (*big.Int, bool) {
	rv := reflect.ValueOf(it)
	for rv.Kind() == reflect.Ptr || rv.Kind() == reflect.Interface {
		if rv.IsNil() {
			return nil, false
		}
		rv = rv.Elem()
	}
	if rv.Kind() != reflect.Struct {
		return nil, false
	}
	f := rv.FieldByName(name)
	if !f.IsValid() {
		return nil, false
	}
	switch f.Kind() {
	case reflect.Int, reflect.Int64, reflect.Int32:
		return big.NewInt(f.Int()), true
	case reflect.Uint, reflect.Uint64, reflect.Uint32:
		return new(big.Int).SetUint64(f.Uint()), true
	case reflect.Ptr:
		if f.Type() == reflect.TypeOf((*big.Int)(nil)) && !f.IsNil() && f.CanAddr() {
			return *(**big.Int)(unsafe.Pointer(f.UnsafeAddr())), true
		}
	}
	return nil, false
}

// full walks of the large groups (thorough tier): n = 2^k and n = P-1
func TestC04FullWalk(t *testing.T) {
	m := kit.NewManual(t, "C04", "one full walk of the iterator per listed size (sizes given by the driver in C04_WALK as k: n=2^k, or pK: n=P-1 of row K), bitmap oracle; non-trivial always")
	spec := kit.EnvStr("C04_WALK", "")
	if spec == "" {
		t.Skip("no C04_WALK")
	}
	var n int64
	var k int
	if _, err := fmt.Sscanf(spec, "p%d", &k); err == nil {
		n = cyclicGroups[k].P - 1
	} else if _, err := fmt.Sscanf(spec, "%d", &k); err == nil {
		n = int64(1) << uint(k)
	} else {
		t.Fatalf("bad C04_WALK %q", spec)
	}
	seed := int64(kit.EnvInt("VERIF_SEED", 1))*1000003 + int64(len(spec))*7919 + n
	c := c04PermCase{N: n, Seed: seed}
	v := &kit.Verdict{NonTrivial: true, Units: 1}
	v.Label("row=%02d", c04Row(n))
	v.Err = c04WalkPermutation(n, seed)
	m.Record(t, c, v)
}

// ---------------------------------------------------------------- C04 (2): algebra of the table and of the draws

type c04TableCase struct {
	Row  int   `json:"row"`
	R    int64 `json:"exponent_draw"` // value of the first rand.Int63() draw
	Seed int64 `json:"rand_seed"`     // seed used to compare with the iterator's own G
	N    int64 `json:"n"`
}

func c04PrimeFactors(x int64) []int64 {
	var fs []int64
	for d := int64(2); d*d <= x; d++ {
		if x%d == 0 {
			fs = append(fs, d)
			for x%d == 0 {
				x /= d
			}
		}
	}
	if x > 1 {
		fs = append(fs, x)
	}
	return fs
}

func c04IsPrime(p int64) bool {
	if p < 2 {
		return false
	}
	for d := int64(2); d*d <= p; d++ {
		if p%d == 0 {
			return false
		}
	}
	return true
}

func c04IsGenerator(g, p *big.Int, factors []int64) bool {
	if g.Sign() <= 0 || g.Cmp(p) >= 0 {
		return false
	}
	pm1 := new(big.Int).Sub(p, big.NewInt(1))
	for _, q := range factors {
		e := new(big.Int).Div(pm1, big.NewInt(q))
		if new(big.Int).Exp(g, e, p).Cmp(big.NewInt(1)) == 0 {
			return false
		}
	}
	return true
}

var c04FactorCache = map[int64][]int64{}

func c04CheckTable(c c04TableCase) *kit.Verdict {
	v := &kit.Verdict{NonTrivial: true}
	v.Label("row=%02d", c.Row)
	row := cyclicGroups[c.Row]
	if !c04IsPrime(row.P) {
		return v.Failf("row %d: P=%d is not prime", c.Row, row.P)
	}
	if c.Row > 0 && cyclicGroups[c.Row-1].P >= row.P {
		return v.Failf("row %d: table not strictly increasing (binary search precondition)", c.Row)
	}
	fs, ok := c04FactorCache[row.P]
	if !ok {
		fs = c04PrimeFactors(row.P - 1)
		c04FactorCache[row.P] = fs
	}
	P := big.NewInt(row.P)
	pm1 := big.NewInt(row.P - 1)
	if new(big.Int).GCD(nil, nil, big.NewInt(row.N), pm1).Cmp(big.NewInt(1)) != 0 {
		return v.Failf("row %d: N=%d shares a factor with P-1=%d", c.Row, row.N, row.P-1)
	}
	if !c04IsGenerator(big.NewInt(row.G), P, fs) {
		return v.Failf("row %d: G=%d does not generate (Z/%d)*", c.Row, row.G, row.P)
	}
	// any draw r: G' = G^(N^(r+1) mod (P-1)) mod P must generate the group
	e := new(big.Int).Exp(big.NewInt(row.N), new(big.Int).Add(big.NewInt(c.R), big.NewInt(1)), pm1)
	g2 := new(big.Int).Exp(big.NewInt(row.G), e, P)
	if !c04IsGenerator(g2, P, fs) {
		return v.Failf("row %d: draw %d gives G'=%s which does not generate (Z/%d)*", c.Row, c.R, g2, row.P)
	}
	// the iterator's own parameters for a size served by this row
	rand.Seed(c.Seed)
	a := rand.Int63()
	rand.Seed(c.Seed)
	it, err := newRangeIterator(c.N)
	if err != nil {
		return v.Failf("n=%d (row %d) rejected: %v", c.N, c.Row, err)
	}
	// white-box part, through reflection: if the iterator's representation changes these three are skipped
	// (and the case is labelled), the black-box part below still runs
	itP, okP := c04BigField(it, "P")
	itG, okG := c04BigField(it, "G")
	itLimit, okL := c04BigField(it, "rangeLimit")
	if !okP || !okG || !okL {
		v.Label("iterator-representation-changed")
	}
	if okP && itP.Cmp(P) != 0 {
		return v.Failf("n=%d: iterator uses P=%s, smallest table prime above n is %d", c.N, itP, row.P)
	}
	if okG && !c04IsGenerator(itG, P, fs) {
		return v.Failf("n=%d seed=%d: iterator's G=%s does not generate (Z/%d)*", c.N, c.Seed, itG, row.P)
	}
	_ = a
	if okL && itLimit.Cmp(big.NewInt(c.N)) != 0 {
		return v.Failf("n=%d: range limit %s", c.N, itLimit)
	}
	cur := it.Int()
	if cur.Sign() <= 0 || cur.Cmp(big.NewInt(c.N)) > 0 {
		return v.Failf("n=%d: first value %s outside 1..n", c.N, cur)
	}
	// the first 2000 outputs are distinct and inside 1..n (cheap prefix of the walk, for sizes too big to walk)
	seen := map[int64]bool{cur.Int64(): true}
	for i := 0; i < 2000 && int64(len(seen)) < c.N; i++ {
		if !it.Next() {
			return v.Failf("n=%d seed=%d: iterator stopped after %d of n values", c.N, c.Seed, len(seen))
		}
		x := it.Int()
		if x.Sign() <= 0 || x.Cmp(big.NewInt(c.N)) > 0 {
			return v.Failf("n=%d: value %s outside 1..n", c.N, x)
		}
		if seen[x.Int64()] {
			return v.Failf("n=%d seed=%d: value %s repeated within the first %d outputs", c.N, c.Seed, x, len(seen))
		}
		seen[x.Int64()] = true
	}
	return v
}

func c04RowRange(row int) (lo, hi int64) {
	lo = 1
	if row > 0 {
		lo = cyclicGroups[row-1].P
	}
	hi = cyclicGroups[row].P - 1
	return
}

func TestC04Table(t *testing.T) {
	kit.Run(t, kit.Spec[c04TableCase]{
		Prop: "C04",
		Rule: "every table row (exhaustive, with draws 0,1,2^63-1 and sizes lo/hi of the row) plus rapid-drawn (row, 63-bit exponent draw, seed, n in the row's interval): P prime, gcd(N,P-1)=1, G and G^(N^(r+1)) generate (Z/P)* (order test on every prime factor of P-1, math/big), iterator picks that row and a generator, first 2000 outputs distinct and in range. non-trivial: always; distinct by tuple",
		Gen: func(t *rapid.T) c04TableCase {
			row := kit.Uniform(t, "row", len(cyclicGroups))
			lo, hi := c04RowRange(row)
			return c04TableCase{Row: row,
				R:    rapid.Int64Range(0, math.MaxInt64).Draw(t, "r"),
				Seed: rapid.Int64().Draw(t, "seed"),
				N:    kit.UniformInt64(t, "n", lo, hi)}
		},
		Check: c04CheckTable,
		Exhaustive: func(yield func(c04TableCase) bool) {
			for row := range cyclicGroups {
				lo, hi := c04RowRange(row)
				for _, r := range []int64{0, 1, 2, math.MaxInt64 - 1, math.MaxInt64} {
					for _, n := range []int64{lo, hi} {
						yield(c04TableCase{Row: row, R: r, Seed: r ^ n, N: n})
					}
				}
			}
		},
	})
}

// ---------------------------------------------------------------- C04 (3): rejection of sizes outside 1..2^32+60

type c04RejectCase struct {
	N int64 `json:"n"`
}

func TestC04Reject(t *testing.T) {
	maxOK := int64(1)<<32 + 60
	kit.Run(t, kit.Spec[c04RejectCase]{
		Prop: "C04",
		Rule: "sizes n<=0 and n>2^32+60 (boundaries and uniform 64-bit) must be rejected with an error and no iterator; 2^32+60 and sizes just below must be accepted. non-trivial: always; distinct by n",
		Gen: func(t *rapid.T) c04RejectCase {
			switch rapid.IntRange(0, 3).Draw(t, "kind") {
			case 0:
				return c04RejectCase{rapid.Int64Range(math.MinInt64, 0).Draw(t, "neg")}
			case 1:
				return c04RejectCase{rapid.Int64Range(maxOK+1, math.MaxInt64).Draw(t, "big")}
			case 2:
				return c04RejectCase{rapid.Int64Range(maxOK-200, maxOK+200).Draw(t, "edge")}
			default:
				return c04RejectCase{rapid.Int64Range(-200, 200).Draw(t, "zero-edge")}
			}
		},
		Check: func(c c04RejectCase) *kit.Verdict {
			v := &kit.Verdict{NonTrivial: true}
			it, err := newRangeIterator(c.N)
			if c.N >= 1 && c.N <= maxOK {
				v.Label("accepted-size")
				if err != nil || it == nil {
					return v.Failf("n=%d must be accepted, got %v", c.N, err)
				}
				return v
			}
			v.Label("rejected-size")
			if err == nil {
				return v.Failf("n=%d is outside 1..2^32+60 but no error was returned", c.N)
			}
			if it != nil {
				return v.Failf("n=%d: error and an iterator", c.N)
			}
			return v
		},
		Exhaustive: func(yield func(c04RejectCase) bool) {
			for _, n := range []int64{math.MinInt64, math.MinInt64 + 1, -1 << 32, -1, 0, 1, maxOK - 1, maxOK, maxOK + 1, maxOK + 2, 1 << 33, 1 << 62, math.MaxInt64} {
				yield(c04RejectCase{n})
			}
		},
	})
}
