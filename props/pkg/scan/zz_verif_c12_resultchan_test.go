//go:build verif

package scan

import (
	"context"
	"fmt"
	"runtime"
	"sync"
	"sync/atomic"
	"testing"
	"time"

	kit "verifkit"

	"pgregory.net/rapid"
)

// C12 at the result queue: a scan is cancelled while processors / workers are in the middle of ResultChan.Put. Whatever
// the moment, no Put panics ("send on closed channel"), every Put returns, the output channel is closed, and everything
// that comes out of it went in (once).

type c12RCCase struct {
	Producers int `json:"producers"`
	Capacity  int `json:"capacity"`
	// the consumer reads this many results and then cancels (0: cancels without reading)
	CancelAfter int  `json:"cancel_after_reads"`
	Drain       bool `json:"consumer_keeps_reading_after_cancel"`
	Rounds      int  `json:"rounds"`
	SpinNs      int  `json:"producer_pause_ns"`
}

type c12RCResult struct{ id string }

func (r *c12RCResult) String() string               { return r.id }
func (r *c12RCResult) ID() string                   { return r.id }
func (r *c12RCResult) MarshalJSON() ([]byte, error) { return []byte(`{"id":"` + r.id + `"}`), nil }

func c12RCRound(c c12RCCase, round int) (msg string) {
	ctx, cancel := context.WithCancel(context.Background())
	defer cancel()
	rc := NewResultChan(ctx, c.Capacity)
	var wg sync.WaitGroup
	var panicked atomic.Value
	var puts int64
	stop := make(chan struct{})
	for p := 0; p < c.Producers; p++ {
		wg.Add(1)
		go func(p int) {
			defer wg.Done()
			defer func() {
				if r := recover(); r != nil {
					panicked.Store(fmt.Sprint(r))
				}
			}()
			for i := 0; ; i++ {
				select {
				case <-stop:
					return
				default:
				}
				rc.Put(&c12RCResult{id: fmt.Sprintf("%d/%d", p, i)})
				atomic.AddInt64(&puts, 1)
				if c.SpinNs > 0 && i%8 == 7 {
					runtime.Gosched()
				}
				if ctx.Err() != nil && i%4 == 3 {
					// a few more Puts after the cancellation, then leave
					select {
					case <-stop:
						return
					case <-time.After(50 * time.Microsecond):
					}
				}
			}
		}(p)
	}
	seen := map[string]bool{}
	reads := 0
	out := rc.Chan()
	for reads < c.CancelAfter {
		select {
		case r, ok := <-out:
			if !ok {
				close(stop)
				wg.Wait()
				return "the output channel closed before any cancellation"
			}
			if seen[r.ID()] {
				close(stop)
				wg.Wait()
				return "result " + r.ID() + " delivered twice"
			}
			seen[r.ID()] = true
			reads++
		case <-time.After(10 * time.Second):
			close(stop)
			return fmt.Sprintf("no result for 10 s after %d reads with %d producers putting", reads, c.Producers)
		}
	}
	cancel()
	closed := make(chan string, 1)
	go func() {
		if !c.Drain {
			// a consumer that stopped reading: the channel must still be closed; poll it without consuming more than needed
			time.Sleep(200 * time.Microsecond)
		}
		for r := range out {
			if seen[r.ID()] {
				closed <- "result " + r.ID() + " delivered twice"
				return
			}
			seen[r.ID()] = true
		}
		closed <- ""
	}()
	select {
	case m := <-closed:
		if m != "" {
			close(stop)
			wg.Wait()
			return m
		}
	case <-time.After(10 * time.Second):
		close(stop)
		return "the output channel was not closed within 10 s of the cancellation"
	}
	// producers keep putting for a moment after the close - this is where a send on the closed channel would panic
	time.Sleep(time.Duration(100+round%5*100) * time.Microsecond)
	close(stop)
	ended := make(chan struct{})
	go func() { wg.Wait(); close(ended) }()
	select {
	case <-ended:
	case <-time.After(10 * time.Second):
		return "a Put did not return within 10 s of the cancellation"
	}
	if p := panicked.Load(); p != nil {
		return "Put panicked: " + p.(string)
	}
	return ""
}

func TestC12ResultChan(t *testing.T) {
	kit.Run(t, kit.Spec[c12RCCase]{
		Prop: "C12",
		Rule: "scan.NewResultChan with 1..16 goroutines calling Put in a loop, capacity 0..1000, a consumer that cancels the context after reading 0..300 results (then keeps reading or stops), repeated 40..400 rounds per case (the cancellation lands at a different point of some Put each round). Oracle: no Put panics, every Put returns and the output channel is closed within 10 s, nothing is delivered twice. non-trivial: >= 2 producers and a cancellation after at least one read; distinct by case",
		Gen: func(t *rapid.T) c12RCCase {
			return c12RCCase{
				Producers:   rapid.SampledFrom([]int{1, 2, 2, 4, 8, 16}).Draw(t, "producers"),
				Capacity:    rapid.SampledFrom([]int{0, 1, 2, 16, 100, 1000}).Draw(t, "capacity"),
				CancelAfter: rapid.SampledFrom([]int{0, 1, 2, 3, 10, 50, 300}).Draw(t, "cancel-after"),
				Drain:       rapid.Bool().Draw(t, "drain"),
				Rounds:      rapid.SampledFrom([]int{40, 100, 400}).Draw(t, "rounds"),
				SpinNs:      rapid.SampledFrom([]int{0, 0, 1}).Draw(t, "pause"),
			}
		},
		Check: func(c c12RCCase) *kit.Verdict {
			v := &kit.Verdict{Units: c.Rounds}
			for r := 0; r < c.Rounds; r++ {
				if msg := c12RCRound(c, r); msg != "" {
					return v.Failf("%d producers, capacity %d, cancelled after %d reads, round %d: %s", c.Producers, c.Capacity, c.CancelAfter, r, msg)
				}
			}
			v.NonTrivial = c.Producers >= 2 && c.CancelAfter >= 1
			return v
		},
	})
}
