//go:build verif

package socks5

import (
	"bytes"
	"context"
	"fmt"
	"io"
	"net"
	"strings"
	"sync"
	"sync/atomic"
	"syscall"
	"testing"
	"time"

	kit "verifkit"

	"github.com/v-byte-cpu/sx/pkg/scan"
	"pgregory.net/rapid"
)

// C09: SOCKS5 probe - reported iff the server answers 05 00; always time-bounded.

type c09Chunk struct {
	Data   []byte `json:"data"`
	PauseQ int    `json:"pause_before_in_eighths_of_data_timeout"` // 0, 1 or 2 (i.e. <= T/4)
}

type c09Script struct {
	Mode       string     `json:"mode"` // accept | refuse | backlog (listener never accepts, queue full: SYNs are dropped)
	ReadFirst  bool       `json:"read_greeting_before_replying"`
	Chunks     []c09Chunk `json:"reply_chunks"`
	End        string     `json:"then"` // stall | close | rst | flood | trickle
	CloseEarly bool       `json:"close_right_after_accept"`
}

type c09Case struct {
	Script   c09Script `json:"server"`
	DialMs   int       `json:"dial_timeout_ms"`
	DataMs   int       `json:"data_timeout_ms"`
	CancelMs int       `json:"cancel_after_ms"` // 0: never
	IP       [4]byte   `json:"ip"`              // 127.x.y.z
	// the probed address is 0.0.0.0 (Linux connects it to the local host; the server sees 127.0.0.1, which is then the script key IP)
	Unspecified bool `json:"probe_0_0_0_0,omitempty"`
	// the Scanner is one that earlier cases of this process already used (as the scan engine shares one among all probes)
	SharedScanner bool `json:"scanner_shared_with_earlier_cases,omitempty"`
}

var c09Shared = struct {
	sync.Mutex
	m map[[2]int]scan.Scanner
}{m: map[[2]int]scan.Scanner{}}

// ---- the scripted server: one listener on 0.0.0.0, the script is chosen by the address the client dialled

type c09Seen struct {
	greeting []byte
	accepted bool
	done     chan struct{}
}

type c09Server struct {
	ln      net.Listener
	port    int
	mu      sync.Mutex
	scripts map[[4]byte]*c09Conn
}

type c09Conn struct {
	script  c09Script
	T       time.Duration
	seen    *c09Seen
	release chan struct{}
}

var (
	c09Once sync.Once
	c09Srv  *c09Server
)

func c09GetServer() *c09Server {
	c09Once.Do(func() {
		ln, err := net.Listen("tcp4", "0.0.0.0:0")
		if err != nil {
			panic(err)
		}
		s := &c09Server{ln: ln, port: ln.Addr().(*net.TCPAddr).Port, scripts: map[[4]byte]*c09Conn{}}
		go s.loop()
		c09Srv = s
	})
	return c09Srv
}

func (s *c09Server) loop() {
	for {
		cn, err := s.ln.Accept()
		if err != nil {
			return
		}
		var key [4]byte
		copy(key[:], cn.LocalAddr().(*net.TCPAddr).IP.To4())
		s.mu.Lock()
		sc := s.scripts[key]
		s.mu.Unlock()
		if sc == nil {
			cn.Close()
			continue
		}
		go sc.serve(cn.(*net.TCPConn))
	}
}

func (c *c09Conn) serve(cn *net.TCPConn) {
	defer close(c.seen.done)
	c.seen.accepted = true
	sc := c.script
	if sc.CloseEarly {
		if sc.End == "rst" {
			cn.SetLinger(0)
		}
		cn.Close()
		return
	}
	readGreeting := func() {
		buf := make([]byte, 16)
		cn.SetReadDeadline(time.Now().Add(2 * time.Second))
		n, _ := io.ReadAtLeast(cn, buf, 3)
		c.seen.greeting = append([]byte(nil), buf[:n]...)
	}
	if sc.ReadFirst {
		readGreeting()
	}
	for _, ch := range sc.Chunks {
		if ch.PauseQ > 0 {
			time.Sleep(c.T * time.Duration(ch.PauseQ) / 8)
		}
		cn.SetWriteDeadline(time.Now().Add(2 * time.Second))
		if _, err := cn.Write(ch.Data); err != nil {
			break
		}
	}
	if !sc.ReadFirst && sc.End != "rst" {
		readGreeting()
	}
	switch sc.End {
	case "close":
		cn.Close()
	case "rst":
		cn.SetLinger(0)
		cn.Close()
	case "flood":
		junk := bytes.Repeat([]byte{0x41}, 4096)
		for {
			cn.SetWriteDeadline(time.Now().Add(200 * time.Millisecond))
			if _, err := cn.Write(junk); err != nil {
				break
			}
			select {
			case <-c.release:
				cn.Close()
				return
			default:
			}
		}
		cn.Close()
	case "trickle":
		// extra bytes one at a time, every few milliseconds, for much longer than any deadline of the probe
		gap := time.Duration(5+len(sc.Chunks)*7%36) * time.Millisecond
		for k := 0; k < 4000; k++ {
			cn.SetWriteDeadline(time.Now().Add(200 * time.Millisecond))
			if _, err := cn.Write([]byte{0x41}); err != nil {
				break
			}
			select {
			case <-c.release:
				cn.Close()
				return
			case <-time.After(gap):
			}
		}
		cn.Close()
	default: // stall: keep the connection open, say nothing more, until the probe is over
		<-c.release
		cn.Close()
	}
}

// backlog listener: accepts nothing; after one queued connection further SYNs are dropped
var (
	c09BLOnce sync.Once
	c09BLPort int
)

func c09BacklogPort() int {
	c09BLOnce.Do(func() {
		fd, err := syscall.Socket(syscall.AF_INET, syscall.SOCK_STREAM, 0)
		if err != nil {
			return
		}
		syscall.SetsockoptInt(fd, syscall.SOL_SOCKET, syscall.SO_REUSEADDR, 1)
		if syscall.Bind(fd, &syscall.SockaddrInet4{Addr: [4]byte{0, 0, 0, 0}}) != nil || syscall.Listen(fd, 0) != nil {
			return
		}
		sa, _ := syscall.Getsockname(fd)
		port := sa.(*syscall.SockaddrInet4).Port
		// fill the queue
		for i := 0; i < 3; i++ {
			net.DialTimeout("tcp4", fmt.Sprintf("127.0.0.1:%d", port), 100*time.Millisecond)
		}
		c09BLPort = port
	})
	return c09BLPort
}

func (s c09Script) sent() []byte {
	var b []byte
	for _, ch := range s.Chunks {
		b = append(b, ch.Data...)
	}
	return b
}

func c09Check(c c09Case) *kit.Verdict {
	v := &kit.Verdict{}
	sc := c.Script
	v.Label("mode=%s", sc.Mode)
	v.Label("end=%s", sc.End)
	if len(sc.Chunks) > 1 {
		v.Label("split-reply")
	}
	if c.CancelMs > 0 {
		v.Label("cancelled")
	}
	T, D := time.Duration(c.DataMs)*time.Millisecond, time.Duration(c.DialMs)*time.Millisecond
	srv := c09GetServer()
	port := srv.port
	seen := &c09Seen{done: make(chan struct{})}
	conn := &c09Conn{script: sc, T: T, seen: seen, release: make(chan struct{})}
	defer close(conn.release)
	switch sc.Mode {
	case "accept":
		srv.mu.Lock()
		if srv.scripts[c.IP] != nil {
			srv.mu.Unlock()
			return &kit.Verdict{Inconclusive: true}
		}
		srv.scripts[c.IP] = conn
		srv.mu.Unlock()
		defer func() {
			srv.mu.Lock()
			delete(srv.scripts, c.IP)
			srv.mu.Unlock()
		}()
	case "refuse":
		// a port nobody listens on
		l, err := net.Listen("tcp4", "127.0.0.1:0")
		if err != nil {
			return &kit.Verdict{Inconclusive: true}
		}
		port = l.Addr().(*net.TCPAddr).Port
		l.Close()
	case "backlog":
		port = c09BacklogPort()
		if port == 0 {
			return &kit.Verdict{Inconclusive: true}
		}
	}
	var s scan.Scanner
	if c.SharedScanner {
		c09Shared.Lock()
		s = c09Shared.m[[2]int{c.DialMs, c.DataMs}]
		if s == nil {
			s = NewScanner(WithDialTimeout(D), WithDataTimeout(T))
			c09Shared.m[[2]int{c.DialMs, c.DataMs}] = s
		}
		c09Shared.Unlock()
		v.Label("shared-scanner")
	} else {
		s = NewScanner(WithDialTimeout(D), WithDataTimeout(T))
	}
	ctx, cancel := context.WithCancel(context.Background())
	defer cancel()
	var cancelAt time.Time
	if c.CancelMs > 0 {
		tm := time.AfterFunc(time.Duration(c.CancelMs)*time.Millisecond, func() { cancelAt = time.Now(); cancel() })
		defer tm.Stop()
	}
	probed := net.IP(c.IP[:])
	if c.Unspecified {
		probed = net.IPv4(0, 0, 0, 0).To4()
		v.Label("probe-0.0.0.0")
	}
	req := &scan.Request{DstIP: probed, DstPort: uint16(port)}
	type outcome struct {
		res scan.Result
		err error
		at  time.Time
	}
	och := make(chan outcome, 1)
	// scheduler lateness during the probe (worst oversleep of a 2 ms sleep)
	var worstLate int64
	jstop := make(chan struct{})
	defer close(jstop)
	go func() {
		for {
			select {
			case <-jstop:
				return
			default:
			}
			t0 := time.Now()
			time.Sleep(2 * time.Millisecond)
			if late := int64(time.Since(t0) - 2*time.Millisecond); late > atomic.LoadInt64(&worstLate) {
				atomic.StoreInt64(&worstLate, late)
			}
		}
	}()
	start := time.Now()
	go func() {
		res, err := s.Scan(ctx, req)
		och <- outcome{res, err, time.Now()}
	}()
	bound := D + 3*T + 3*time.Second
	var o outcome
	select {
	case o = <-och:
	case <-time.After(bound + 20*time.Second):
		return v.Failf("probe of %v:%d (%+v) still running %v after its start; connect timeout %v + three data timeouts of %v", net.IP(c.IP[:]), port, sc, bound+20*time.Second, D, T)
	}
	elapsed := o.at.Sub(start)
	if c.CancelMs == 0 && elapsed > bound {
		return v.Failf("probe took %v; connect timeout %v + three data timeouts of %v (+3 s slack) = %v; server: %+v", elapsed, D, T, bound, sc)
	}
	if c.CancelMs > 0 && !cancelAt.IsZero() && o.at.Sub(cancelAt) > 3*time.Second {
		return v.Failf("scan cancelled %v after the start, probe returned only %v after the cancellation (timeouts: connect %v, data %v); server: %+v", time.Duration(c.CancelMs)*time.Millisecond, o.at.Sub(cancelAt), D, T, sc)
	}
	sent := sc.sent()
	positiveSent := sc.Mode == "accept" && !sc.CloseEarly && len(sent) >= 2 && sent[0] == 5 && sent[1] == 0
	if o.res != nil {
		if !positiveSent {
			return v.Failf("reported as SOCKS5 proxy although the first two reply bytes are not 05 00 (server: %+v; reply bytes %x)", sc, sent)
		}
		r, ok := o.res.(*ScanResult)
		if !ok || r.IP != probed.String() || int(r.Port) != port || r.ScanType != "socks" || r.Version != 5 {
			return v.Failf("record %+v does not carry the probed address %v:%d", o.res, probed, port)
		}
	}
	// delivery is certain when the server read the greeting before replying (no reset races) and nothing was cancelled
	certain := positiveSent && sc.ReadFirst && c.CancelMs == 0 && sc.End != "rst"
	if certain && o.res == nil && o.err != nil && strings.Contains(o.err.Error(), "timeout") {
		// the probe ran into its own data timeout although the server answers at once: on a busy machine that happens to any
		// client. No verdict if the machine stalled for a good part of the timeout, or if the miss does not repeat
		if time.Duration(atomic.LoadInt64(&worstLate)) > T/8 {
			return &kit.Verdict{Inconclusive: true}
		}
		for i := 0; i < 2; i++ {
			if res, err := s.Scan(ctx, req); res != nil && err == nil {
				return &kit.Verdict{Inconclusive: true}
			}
		}
	}
	if certain && o.res == nil {
		return v.Failf("server answered 05 00 (chunks %+v, then %s) but nothing was reported (err=%v, took %v, data timeout %v)", sc.Chunks, sc.End, o.err, elapsed, T)
	}
	if sc.Mode != "accept" && o.err == nil {
		return v.Failf("connection could not be made (%s) but the probe returned neither a record nor an error", sc.Mode)
	}
	// what the server saw
	if sc.Mode == "accept" && !sc.CloseEarly && (sc.ReadFirst || sc.End != "rst") && c.CancelMs == 0 {
		select {
		case <-seen.done:
		case <-time.After(100 * time.Millisecond):
		}
		if g := seen.greeting; seen.accepted && len(g) > 0 && !bytes.Equal(g, []byte{5, 1, 0}) {
			return v.Failf("the server received the greeting %x, expected 05 01 00", g)
		}
	}
	v.NonTrivial = !(sc.Mode == "accept" && len(sc.Chunks) == 1 && len(sc.Chunks[0].Data) == 2 && sc.End == "close" && sc.ReadFirst)
	return v
}

func c09GenIP(t *rapid.T) [4]byte {
	return [4]byte{127, byte(rapid.IntRange(0, 255).Draw(t, "ip1")), byte(rapid.IntRange(0, 255).Draw(t, "ip2")), byte(rapid.IntRange(2, 254).Draw(t, "ip3"))}
}

func c09GenReply(t *rapid.T) []byte {
	switch rapid.IntRange(0, 7).Draw(t, "reply") {
	case 0, 1:
		return []byte{5, 0}
	case 2:
		return []byte{5, byte(rapid.IntRange(1, 255).Draw(t, "method"))}
	case 3:
		return []byte{byte(rapid.SampledFrom([]int{0, 4, 6, 0x35, 255}).Draw(t, "ver")), 0}
	case 4:
		return []byte{5}
	case 5:
		return nil
	case 6:
		return append([]byte{5, 0}, rapid.SliceOfN(rapid.Byte(), 1, 40).Draw(t, "extra")...)
	}
	return rapid.SliceOfN(rapid.Byte(), 2, 6).Draw(t, "garbage")
}

func TestC09Scripts(t *testing.T) {
	kit.Run(t, kit.Spec[c09Case]{
		Prop: "C09",
		Rule: "the real socks5.Scanner against a scripted loopback server chosen per probed address in 127.0.0.0/8: refuse; listener whose accept queue is full (SYNs dropped: dial timeout); accept and close/reset at once; reply bytes (05 00, 05 xx, xx 00, one byte, none, 05 00 + extra, garbage) sent before or after reading the greeting, whole or split into segments with pauses <= T/4, then stall / close / reset / flood / a trickle of single bytes every 5..40 ms for up to 160 s; connect and data timeouts 60..300 ms; optional cancellation at a drawn instant (with 20 s timeouts); half of the probes through a Scanner that earlier cases already used (the engine shares one among all probes), one accepted case in ten probes 0.0.0.0 (which Linux connects to the local host). Oracle: a record only if the first two bytes sent are 05 00, carrying the probed ip/port; a record is demanded when 05 00 was sent after reading the greeting (delivery certain); no connection => error; greeting seen by the server = 05 01 00; elapsed <= connect + 3 x data timeout + 3 s; after a cancel the probe returns within 3 s. non-trivial: anything but the plain full reply; distinct by case",
		Gen: func(t *rapid.T) c09Case {
			c := c09Case{IP: c09GenIP(t), DialMs: rapid.SampledFrom([]int{60, 150, 300}).Draw(t, "dial"), DataMs: rapid.SampledFrom([]int{60, 150, 300}).Draw(t, "data")}
			sc := &c.Script
			sc.Mode = rapid.SampledFrom([]string{"accept", "accept", "accept", "accept", "accept", "refuse", "backlog"}).Draw(t, "mode")
			if sc.Mode == "accept" {
				sc.ReadFirst = rapid.IntRange(0, 3).Draw(t, "readfirst") != 0
				sc.End = rapid.SampledFrom([]string{"stall", "close", "close", "rst", "flood", "stall", "close", "close", "rst", "flood", "trickle"}).Draw(t, "end")
				sc.CloseEarly = rapid.IntRange(0, 7).Draw(t, "early") == 0
				if !sc.CloseEarly {
					reply := c09GenReply(t)
					// split into segments
					for len(reply) > 0 {
						n := len(reply)
						if rapid.Bool().Draw(t, "split") {
							n = 1 + kit.Uniform(t, "seg", len(reply))
						}
						sc.Chunks = append(sc.Chunks, c09Chunk{Data: reply[:n], PauseQ: rapid.SampledFrom([]int{0, 0, 1, 2}).Draw(t, "pause")})
						reply = reply[n:]
					}
				}
			} else {
				sc.End = "stall"
			}
			if rapid.IntRange(0, 4).Draw(t, "cancel") == 0 {
				c.DialMs, c.DataMs = 20000, 20000
				c.CancelMs = rapid.SampledFrom([]int{1, 20, 120}).Draw(t, "cancelms")
			}
			c.SharedScanner = rapid.Bool().Draw(t, "shared-scanner")
			if sc.Mode == "accept" && rapid.IntRange(0, 9).Draw(t, "unspecified") == 0 {
				c.Unspecified, c.IP = true, [4]byte{127, 0, 0, 1}
			}
			return c
		},
		Check: c09Check,
	})
}

// ---------------------------------------------------------------- all two-byte replies

func TestC09AllReplies(t *testing.T) {
	full := kit.EnvInt("C09_ALL", 0) == 1
	rule := "every two-byte reply b0 b1 sent whole after reading the greeting, then close: a record iff b0 b1 = 05 00. quick: all 256 b1 for b0=05, all 256 b0 for b1=00, and a pseudo-random sample; thorough (C09_ALL=1): all 65536. non-trivial: always; distinct by reply"
	m := kit.NewManual(t, "C09", rule)
	type job struct{ b0, b1 byte }
	var jobs []job
	if full {
		for i := 0; i < 65536; i++ {
			jobs = append(jobs, job{byte(i >> 8), byte(i)})
		}
	} else {
		for i := 0; i < 256; i++ {
			jobs = append(jobs, job{5, byte(i)}, job{byte(i), 0})
		}
		x := uint32(kit.EnvInt("VERIF_SEED", 1))*2654435761 + 12345
		for i := 0; i < 1500; i++ {
			x = x*1664525 + 1013904223
			jobs = append(jobs, job{byte(x >> 24), byte(x >> 16)})
		}
	}
	type result struct {
		c c09Case
		v *kit.Verdict
	}
	out := make(chan result, 256)
	in := make(chan int, 256)
	var wg sync.WaitGroup
	for w := 0; w < 48; w++ {
		wg.Add(1)
		go func(w int) {
			defer wg.Done()
			for i := range in {
				j := jobs[i]
				c := c09Case{IP: [4]byte{127, byte(1 + w), byte(i >> 8), byte(2 + i%250)}, DialMs: 2000, DataMs: 2000,
					Script: c09Script{Mode: "accept", ReadFirst: true, End: "close", Chunks: []c09Chunk{{Data: []byte{j.b0, j.b1}}}}}
				v := c09Check(c)
				v.NonTrivial = true
				out <- result{c, v}
			}
		}(w)
	}
	go func() {
		for i := range jobs {
			in <- i
		}
		close(in)
		wg.Wait()
		close(out)
	}()
	for r := range out {
		if r.v.Inconclusive {
			continue
		}
		m.Record(t, r.c, r.v)
	}
	m.SetExhaustive(full)
}
