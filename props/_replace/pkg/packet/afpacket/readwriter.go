//go:build linux
// +build linux

// VERIF: this file replaces pkg/packet/afpacket/readwriter.go (the 67-line adapter around the kernel
// AF_PACKET socket) in cmdwire test binaries only. Same exported API; the socket is verifkit/vwire's
// userspace model. The filter text is compiled with the same pcap call and link type as the real
// adapter and executed by the golang.org/x/net/bpf VM.
package afpacket

import (
	"fmt"

	"verifkit/vwire"

	"github.com/google/gopacket"
	"github.com/google/gopacket/layers"
	"github.com/google/gopacket/pcap"
	"github.com/v-byte-cpu/sx/pkg/packet"
	"golang.org/x/net/bpf"
)

type Source struct {
	sock     *vwire.Socket
	linkType layers.LinkType
}

var _ packet.ReadWriter = (*Source)(nil)

func NewPacketSource(iface string, vpnMode bool) (*Source, error) {
	sock, err := vwire.Open(iface, vpnMode)
	if err != nil {
		return nil, err
	}
	linkType := layers.LinkTypeEthernet
	if vpnMode {
		linkType = layers.LinkTypeIPv4
	}
	return &Source{sock, linkType}, nil
}

func (s *Source) SetBPFFilter(bpfFilter string, maxPacketLength int) error {
	pcapBPF, err := pcap.CompileBPFFilter(s.linkType, maxPacketLength, bpfFilter)
	if err != nil {
		return err
	}
	ins := make([]bpf.Instruction, 0, len(pcapBPF))
	for _, in := range pcapBPF {
		raw := bpf.RawInstruction{Op: in.Code, Jt: in.Jt, Jf: in.Jf, K: in.K}
		ins = append(ins, raw.Disassemble())
	}
	vm, err := bpf.NewVM(ins)
	if err != nil {
		return fmt.Errorf("vwire: BPF program rejected: %w", err)
	}
	s.sock.SetFilter(bpfFilter, maxPacketLength, vm.Run)
	return nil
}

func (s *Source) Close() {
	s.sock.Close()
}

func (s *Source) ReadPacketData() ([]byte, *gopacket.CaptureInfo, error) {
	data, at, origLen, err := s.sock.Read()
	ci := gopacket.CaptureInfo{Timestamp: at, CaptureLength: len(data), Length: origLen}
	return data, &ci, err
}

func (s *Source) WritePacketData(pkt []byte) error {
	return s.sock.Write(pkt)
}
