package gram

import (
	"fmt"
	"sort"
	"strings"
)

// FileLine is one entry of a JSONL target file.
type FileLine struct {
	IP     uint32 `json:"ip"`
	Mapped bool   `json:"mapped_spelling"` // written as ::ffff:a.b.c.d (16-byte form after parsing)
	Port   int    `json:"port"`
}

func (l FileLine) Render(withPort bool) string {
	ip := U32String(l.IP)
	if l.Mapped {
		ip = "::ffff:" + ip
	}
	if withPort {
		return fmt.Sprintf(`{"ip":"%s","port":%d}`, ip, l.Port)
	}
	return fmt.Sprintf(`{"ip":"%s"}`, ip)
}

// Spec is a target specification as a user can give it to a scan command.
type Spec struct {
	CIDR    string      `json:"cidr,omitempty"`  // positional argument ("" = none)
	Ports   []PortRange `json:"ports,omitempty"` // -p / --ports-file
	File    []FileLine  `json:"file,omitempty"`  // -f
	HasFile bool        `json:"has_file"`
	Exclude []string    `json:"exclude,omitempty"` // lines of the --exclude file (hosts / CIDRs)
}

type Probe struct {
	IP   uint32
	Port uint16
}

func (p Probe) String() string { return fmt.Sprintf("%s:%d", U32String(p.IP), p.Port) }

// Denote returns the multiset of probes one pass of the scan must put on the wire.
// portless: arp / icmp (Port is 0 in the result). The second result is false when the
// specification is not valid (then no claim is made).
func (s Spec) Denote(portless bool) (map[Probe]int, bool) {
	var excl []Prefix
	for _, l := range s.Exclude {
		p, ok := RefIPv4Target(l)
		if !ok {
			return nil, false
		}
		excl = append(excl, p)
	}
	out := map[Probe]int{}
	var addrs []uint32
	switch {
	case s.HasFile:
		for _, l := range s.File {
			addrs = append(addrs, l.IP)
		}
	case s.CIDR != "":
		p, ok := RefIPv4Target(s.CIDR)
		if !ok {
			return nil, false
		}
		for i := uint64(0); i < p.Size(); i++ {
			addrs = append(addrs, p.Base+uint32(i))
		}
	default:
		return nil, false
	}
	add := func(a uint32, port uint16) {
		if !Excluded(excl, a) {
			out[Probe{a, port}]++
		}
	}
	if portless {
		for _, a := range addrs {
			add(a, 0)
		}
		return out, true
	}
	if s.HasFile && len(s.Ports) == 0 {
		// file of ip/port pairs
		for _, l := range s.File {
			if l.Port < 1 || l.Port > 65535 {
				return nil, false
			}
			add(l.IP, uint16(l.Port))
		}
		return out, true
	}
	if len(s.Ports) == 0 {
		return nil, false
	}
	for _, r := range s.Ports {
		if r.Start > r.End {
			return nil, false
		}
		for p := int(r.Start); p <= int(r.End); p++ {
			for _, a := range addrs {
				add(a, uint16(p))
			}
		}
	}
	return out, true
}

func Total(m map[Probe]int) int {
	n := 0
	for _, c := range m {
		n += c
	}
	return n
}

// DiffProbes describes want vs got (multisets), "" if equal.
func DiffProbes(want, got map[Probe]int) string {
	var miss, extra []string
	for k, n := range want {
		if got[k] < n {
			miss = append(miss, fmt.Sprintf("%s x%d", k, n-got[k]))
		}
	}
	for k, n := range got {
		if want[k] < n {
			extra = append(extra, fmt.Sprintf("%s x%d", k, n-want[k]))
		}
	}
	if len(miss)+len(extra) == 0 {
		return ""
	}
	sort.Strings(miss)
	sort.Strings(extra)
	nm, ne := len(miss), len(extra)
	if nm > 4 {
		miss = miss[:4]
	}
	if ne > 4 {
		extra = extra[:4]
	}
	return fmt.Sprintf("%d missing [%s], %d surplus [%s]", nm, strings.Join(miss, " "), ne, strings.Join(extra, " "))
}
