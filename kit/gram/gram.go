// Package gram holds the reference grammars (C18) and the reference denotation of target
// specifications (C01/C02): written from the documentation of sx's options, not from its code.
package gram

import (
	"fmt"
	"strconv"
	"strings"
	"time"
	"unicode/utf8"
)

type PortRange struct{ Start, End uint16 }

func decimal(s string, max uint64) (uint64, bool) {
	if s == "" {
		return 0, false
	}
	var v uint64
	for i := 0; i < len(s); i++ {
		c := s[i]
		if c < '0' || c > '9' {
			return 0, false
		}
		v = v*10 + uint64(c-'0')
		if v > max {
			return 0, false
		}
	}
	return v, true
}

// RefPortRange: "N" or "N-M", decimal, each within 0..65535. Nothing else is a port range.
func RefPortRange(s string) (PortRange, bool) {
	parts := strings.Split(s, "-")
	if len(parts) > 2 {
		return PortRange{}, false
	}
	a, ok := decimal(parts[0], 65535)
	if !ok {
		return PortRange{}, false
	}
	b := a
	if len(parts) == 2 {
		if b, ok = decimal(parts[1], 65535); !ok {
			return PortRange{}, false
		}
	}
	return PortRange{uint16(a), uint16(b)}, true
}

func RefPortList(s string) ([]PortRange, bool) {
	var out []PortRange
	for _, p := range strings.Split(s, ",") {
		r, ok := RefPortRange(p)
		if !ok {
			return nil, false
		}
		out = append(out, r)
	}
	return out, true
}

func RenderPortRange(r PortRange, short bool) string {
	if short && r.Start == r.End {
		return fmt.Sprintf("%d", r.Start)
	}
	return fmt.Sprintf("%d-%d", r.Start, r.End)
}

// lines splits file content the way text files are read: "\n" terminated, an optional "\r" before it
// belongs to the terminator, a final unterminated line counts.
func lines(content string) []string {
	if content == "" {
		return nil
	}
	ls := strings.Split(content, "\n")
	if ls[len(ls)-1] == "" {
		ls = ls[:len(ls)-1]
	}
	for i := range ls {
		ls[i] = strings.TrimSuffix(ls[i], "\r")
	}
	return ls
}

func stripLine(l string) string {
	if i := strings.Index(l, "#"); i >= 0 {
		l = l[:i]
	}
	return strings.Trim(l, " ")
}

// RefPortsFile: one range per line, '#' starts a comment, blank lines ignored, whatever the line length.
func RefPortsFile(content string) ([]PortRange, bool) {
	var out []PortRange
	for _, l := range lines(content) {
		l = stripLine(l)
		if l == "" {
			continue
		}
		r, ok := RefPortRange(l)
		if !ok {
			return nil, false
		}
		out = append(out, r)
	}
	return out, true
}

// RefRate: "COUNT" or "COUNT/WINDOW"; COUNT a non-negative decimal (optional sign) that fits 31 bits;
// WINDOW a Go duration, or a bare unit meaning one of it ("s" = "1s"). Default window one second.
func RefRate(s string) (count int, window time.Duration, ok bool) {
	parts := strings.Split(s, "/")
	if len(parts) > 2 {
		return 0, 0, false
	}
	c := parts[0]
	neg := false
	if strings.HasPrefix(c, "+") {
		c = c[1:]
	} else if strings.HasPrefix(c, "-") {
		c, neg = c[1:], true
	}
	v, good := decimal(c, 1<<31-1)
	if !good || (neg && v != 0) {
		return 0, 0, false
	}
	count, window = int(v), time.Second
	if len(parts) == 1 {
		return count, window, true
	}
	w := parts[1]
	if w == "" {
		return 0, 0, false
	}
	if d, err := time.ParseDuration(w); err == nil {
		if d < 0 {
			return 0, 0, false
		}
		return count, d, true
	}
	// bare unit
	if w[0] >= 'a' && w[0] <= 'z' || strings.HasPrefix(w, "µ") || strings.HasPrefix(w, "μ") {
		if d, err := time.ParseDuration("1" + w); err == nil && d >= 0 {
			return count, d, true
		}
	}
	return 0, 0, false
}

var TCPFlagNames = []string{"fin", "syn", "rst", "psh", "ack", "urg", "ece", "cwr", "ns"} // index = bit number

// RefTCPFlags: comma separated names, any letter case; "" is the empty set.
func RefTCPFlags(s string) (bits uint16, ok bool) {
	if s == "" {
		return 0, true
	}
	for _, n := range strings.Split(s, ",") {
		found := false
		for i, name := range TCPFlagNames {
			if asciiLower(n) == name {
				bits |= 1 << uint(i)
				found = true
			}
		}
		if !found {
			return 0, false
		}
	}
	return bits, true
}

func asciiLower(s string) string {
	b := []byte(s)
	for i, c := range b {
		if c >= 'A' && c <= 'Z' {
			b[i] = c + 32
		}
	}
	return string(b)
}

// IP flags: value bits as in the IPv4 header's 3-bit field: evil=4, df=2, mf=1.
func RefIPFlags(s string) (bits uint8, ok bool) {
	if s == "" {
		return 0, true
	}
	for _, n := range strings.Split(s, ",") {
		switch asciiLower(n) {
		case "df":
			bits |= 2
		case "evil":
			bits |= 4
		case "mf":
			bits |= 1
		default:
			return 0, false
		}
	}
	return bits, true
}

type Tri int

const (
	Reject Tri = iota
	Accept
	Undecided // the reference does not take a position (documented don't-care)
)

func hexval(c byte) (byte, bool) {
	switch {
	case c >= '0' && c <= '9':
		return c - '0', true
	case c >= 'a' && c <= 'f':
		return c - 'a' + 10, true
	case c >= 'A' && c <= 'F':
		return c - 'A' + 10, true
	}
	return 0, false
}

// RefPayload unescapes a payload written with Go string-literal escapes (as the help text's '\x01\x02\x03').
// A raw byte (also one that is not valid UTF-8) denotes itself.
func RefPayload(s string) ([]byte, Tri) {
	var out []byte
	for i := 0; i < len(s); {
		c := s[i]
		switch {
		case c == '"' || c == '\n':
			return nil, Reject
		case c == '\\':
			if i+1 >= len(s) {
				return nil, Reject
			}
			e := s[i+1]
			i += 2
			switch e {
			case 'a':
				out = append(out, 7)
			case 'b':
				out = append(out, 8)
			case 'f':
				out = append(out, 12)
			case 'n':
				out = append(out, 10)
			case 'r':
				out = append(out, 13)
			case 't':
				out = append(out, 9)
			case 'v':
				out = append(out, 11)
			case '\\':
				out = append(out, '\\')
			case '"':
				out = append(out, '"')
			case 'x':
				if i+2 > len(s) {
					return nil, Reject
				}
				h, ok1 := hexval(s[i])
				l, ok2 := hexval(s[i+1])
				if !ok1 || !ok2 {
					return nil, Reject
				}
				out = append(out, h<<4|l)
				i += 2
			case '0', '1', '2', '3', '4', '5', '6', '7':
				if i+2 > len(s) {
					return nil, Reject
				}
				v := int(e - '0')
				for k := 0; k < 2; k++ {
					d := s[i+k]
					if d < '0' || d > '7' {
						return nil, Reject
					}
					v = v*8 + int(d-'0')
				}
				if v > 255 {
					return nil, Reject
				}
				out = append(out, byte(v))
				i += 2
			case 'u', 'U':
				n := 4
				if e == 'U' {
					n = 8
				}
				if i+n > len(s) {
					return nil, Reject
				}
				var r rune
				for k := 0; k < n; k++ {
					h, ok := hexval(s[i+k])
					if !ok {
						return nil, Reject
					}
					r = r<<4 | rune(h)
				}
				if r > utf8.MaxRune || (r >= 0xd800 && r < 0xe000) || r < 0 {
					return nil, Reject
				}
				out = utf8.AppendRune(out, r)
				i += n
			default:
				return nil, Reject
			}
		case c < utf8.RuneSelf:
			out = append(out, c)
			i++
		default:
			r, size := utf8.DecodeRuneInString(s[i:])
			if r == utf8.RuneError && size == 1 {
				// a raw byte that is not UTF-8 (sx tcp --payload $'\xff'): it denotes itself, like every other unescaped byte
				out = append(out, c)
				i++
				continue
			}
			out = append(out, s[i:i+size]...)
			i += size
		}
	}
	return out, Accept
}

// RenderPayload: every byte as \xHH (mode 0), or printable ASCII literally where that is unambiguous (mode 1),
// or octal escapes (mode 2), or as Go renders a string literal (modes 3 and 4: \\u / \\U escapes).
func RenderPayload(b []byte, mode int) string {
	switch mode {
	case 3: // Go string-literal rendering: printable runes literally, other valid runes as \u / \U, stray bytes as \x
		q := strconv.Quote(string(b))
		return q[1 : len(q)-1]
	case 4: // the same restricted to ASCII: every non-ASCII rune as \u / \U
		q := strconv.QuoteToASCII(string(b))
		return q[1 : len(q)-1]
	}
	var sb strings.Builder
	for _, c := range b {
		switch {
		case mode == 1 && c >= 0x20 && c < 0x7f && c != '"' && c != '\\':
			sb.WriteByte(c)
		case mode == 2:
			fmt.Fprintf(&sb, "\\%03o", c)
		default:
			fmt.Fprintf(&sb, "\\x%02x", c)
		}
	}
	return sb.String()
}
