package gram

import (
	"fmt"
	"strings"
)

// Reference model of JSONL target lists with entries that cannot become probes (C13).

// Causes an error record may state.
const (
	CauseJSON    = "json"    // "invalid json"
	CauseIP      = "ip"      // "invalid ip"
	CausePort    = "port"    // "invalid port"
	CauseTooLong = "toolong" // bufio.Scanner: token too long
	CauseNoMAC   = "nomac"   // no destination MAC address for <ip>
	CauseAny     = "any"     // the statement does not fix the wording (e.g. IPv6 entries)
)

// TLine is one line of a target list, together with what it means.
type TLine struct {
	Kind string `json:"kind"`
	Text string `json:"text"` // the line as written; for Kind "too-long" the padding is added at render time
	IP   uint32 `json:"ip,omitempty"`
	Port int    `json:"port,omitempty"`
}

// LineKinds: kind -> bad in pairs mode, bad in addresses(-x-ports) mode, acceptable causes.
// A line with two faults may be reported with either cause.
type lineKind struct {
	BadPairs, BadIPs bool
	Causes           []string
}

var LineKinds = map[string]lineKind{
	"valid":           {false, false, nil},
	"valid-extra":     {false, false, nil},                // unknown extra field
	"valid-mapped":    {false, false, nil},                // ::ffff:a.b.c.d
	"missing-port":    {true, false, []string{CausePort}}, // {"ip":"1.2.3.4"}
	"port-0":          {true, false, []string{CausePort}},
	"port-65536":      {true, false, []string{CausePort}},
	"port-negative":   {true, false, []string{CausePort}},
	"port-null":       {true, false, []string{CausePort, CauseJSON}},
	"missing-ip":      {true, true, []string{CauseIP, CauseJSON}},            // {"port":80}
	"null":            {true, true, []string{CauseIP, CauseJSON}},            // null
	"empty-object":    {true, true, []string{CauseIP, CauseJSON, CausePort}}, // {}
	"ip-null":         {true, true, []string{CauseIP, CauseJSON}},            // {"ip":null,"port":80}
	"wrong-key-case":  {true, true, []string{CauseIP, CauseJSON}},            // {"IP":...}: the documented keys are lower case
	"wrong-type-ip":   {true, true, []string{CauseIP, CauseJSON}},            // {"ip":5,...}
	"top-level-other": {true, true, []string{CauseIP, CauseJSON}},            // 5, "x", [1]
	"bad-address":     {true, true, []string{CauseIP}},                       // "1.2.3", "300.1.1.1", "", "abc"
	"bad-json":        {true, true, []string{CauseJSON}},                     // truncated / garbage
	"blank":           {true, true, []string{CauseJSON}},
	"too-long":        {true, true, []string{CauseTooLong, CauseJSON}}, // > 64 KiB and not valid JSON either
	"ipv6":            {true, true, []string{CauseAny}},                // a real IPv6 address: not an IPv4 target
	// only generated in pairs mode (in addresses mode the port field is documented as irrelevant and the
	// statement leaves open whether an ill-typed one spoils the line)
	"wrong-type-port": {true, true, []string{CausePort, CauseJSON}},
	"port-huge":       {true, true, []string{CausePort, CauseJSON}},
}

func (l TLine) Bad(pairs bool) bool {
	k := LineKinds[l.Kind]
	if pairs {
		return k.BadPairs
	}
	return k.BadIPs
}

func (l TLine) Causes() []string { return LineKinds[l.Kind].Causes }

// Render returns the text of the line as it goes into the file.
func (l TLine) Render() string {
	if l.Kind == "too-long" {
		return l.Text + strings.Repeat("x", 70000)
	}
	return l.Text
}

// CauseOf maps an error text (as sx logs it) to the cause it states ("" = none recognised).
func CauseOf(msg string) string {
	m := strings.ToLower(msg)
	switch {
	case strings.Contains(m, "no destination mac"):
		return CauseNoMAC
	case strings.Contains(m, "token too long"):
		return CauseTooLong
	case strings.Contains(m, "invalid json"):
		return CauseJSON
	case strings.Contains(m, "invalid ip"):
		return CauseIP
	case strings.Contains(m, "invalid port"):
		return CausePort
	}
	return ""
}

// CauseOK: does the error text state one of the acceptable causes?
func CauseOK(msg string, causes []string) bool {
	c := CauseOf(msg)
	for _, a := range causes {
		if a == CauseAny || (c != "" && a == c) {
			return true
		}
	}
	return false
}

func RenderTLines(ls []TLine) string {
	var sb strings.Builder
	for _, l := range ls {
		sb.WriteString(l.Render())
		sb.WriteByte('\n')
	}
	return sb.String()
}

func (l TLine) String() string {
	t := l.Text
	if len(t) > 60 {
		t = t[:60] + "..."
	}
	return fmt.Sprintf("%s %q", l.Kind, t)
}
