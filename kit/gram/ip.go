package gram

import (
	"fmt"
	"net"
	"strings"
)

// Prefix is an IPv4 CIDR block as integers.
type Prefix struct {
	Base uint32 // network address (host bits cleared)
	Bits int    // 0..32
	Addr uint32 // the address as written (may have host bits set)
}

func (p Prefix) Size() uint64 { return uint64(1) << uint(32-p.Bits) }
func (p Prefix) Contains(a uint32) bool {
	if p.Bits == 0 {
		return true
	}
	return a>>(32-uint(p.Bits)) == p.Base>>(32-uint(p.Bits))
}
func (p Prefix) String() string { return fmt.Sprintf("%s/%d", U32String(p.Addr), p.Bits) }

func U32String(a uint32) string {
	return fmt.Sprintf("%d.%d.%d.%d", byte(a>>24), byte(a>>16), byte(a>>8), byte(a))
}

func U32Bytes(a uint32) [4]byte { return [4]byte{byte(a >> 24), byte(a >> 16), byte(a >> 8), byte(a)} }

func BytesU32(b []byte) uint32 {
	return uint32(b[0])<<24 | uint32(b[1])<<16 | uint32(b[2])<<8 | uint32(b[3])
}

// ParseIPv4 accepts strict dotted decimal: four decimal octets 0..255 without leading zeros
// (a lone "0" is fine).
func ParseIPv4(s string) (uint32, bool) {
	parts := strings.Split(s, ".")
	if len(parts) != 4 {
		return 0, false
	}
	var a uint32
	for _, p := range parts {
		if p == "" || len(p) > 3 || (len(p) > 1 && p[0] == '0') {
			return 0, false
		}
		v, ok := decimal(p, 255)
		if !ok {
			return 0, false
		}
		a = a<<8 | uint32(v)
	}
	return a, true
}

// RefIPv4Target: "a.b.c.d" or "a.b.c.d/n" with n a decimal number in 0..32 (leading zeros in n are tolerated: "/08" is 8).
// Everything else - in particular every IPv6 form - is not an IPv4 target.
func RefIPv4Target(s string) (Prefix, bool) {
	addr, mask := s, ""
	hasMask := false
	if i := strings.IndexByte(s, '/'); i >= 0 {
		addr, mask, hasMask = s[:i], s[i+1:], true
	}
	a, ok := ParseIPv4(addr)
	if !ok {
		return Prefix{}, false
	}
	bits := 32
	if hasMask {
		if mask == "" {
			return Prefix{}, false
		}
		v, ok := decimal(mask, 32)
		if !ok {
			return Prefix{}, false
		}
		bits = int(v)
	}
	base := a
	if bits < 32 {
		base = a >> (32 - uint(bits)) << (32 - uint(bits))
		if bits == 0 {
			base = 0
		}
	}
	return Prefix{Base: base, Bits: bits, Addr: a}, true
}

// RefExcludeFile: one host or CIDR per line, '#' comments, blank lines ignored.
// ok=false when some line is not an IPv4 host/CIDR (the reference then has no denotation:
// sx may refuse the file, and if it accepts it the IPv4 lines still must be honoured - see callers).
func RefExcludeFile(content string) (prefixes []Prefix, allIPv4 bool) {
	allIPv4 = true
	for _, l := range lines(content) {
		l = stripLine(l)
		if l == "" {
			continue
		}
		p, ok := RefIPv4Target(l)
		if !ok {
			allIPv4 = false
			// an IPv4-mapped IPv6 host or prefix (::ffff:a.b.c.d[/96..128]) covers exactly the mapped IPv4
			// addresses; every other IPv6 line covers no IPv4 address at all
			if mp, isMapped := mappedPrefix(l); isMapped {
				prefixes = append(prefixes, mp)
			}
			continue
		}
		prefixes = append(prefixes, p)
	}
	return
}

func Excluded(prefixes []Prefix, a uint32) bool {
	for _, p := range prefixes {
		if p.Contains(a) {
			return true
		}
	}
	return false
}

func mappedPrefix(l string) (Prefix, bool) {
	var ip net.IP
	ones := 128
	if strings.Contains(l, "/") {
		_, n, err := net.ParseCIDR(l)
		if err != nil || len(n.IP) != 16 {
			return Prefix{}, false
		}
		o, bits := n.Mask.Size()
		if bits != 128 {
			return Prefix{}, false
		}
		ip, ones = net.ParseIP(l[:strings.Index(l, "/")]), o
	} else {
		ip = net.ParseIP(l)
	}
	if ip == nil || !strings.Contains(l, ":") || ones < 96 {
		return Prefix{}, false
	}
	ip = ip.To16()
	for i := 0; i < 10; i++ {
		if ip[i] != 0 {
			return Prefix{}, false
		}
	}
	if ip[10] != 0xff || ip[11] != 0xff {
		return Prefix{}, false
	}
	a := BytesU32(ip[12:16])
	bits := ones - 96
	base := a
	if bits < 32 {
		base = a >> (32 - uint(bits)) << (32 - uint(bits))
		if bits == 0 {
			base = 0
		}
	}
	return Prefix{Base: base, Bits: bits, Addr: a}, true
}
