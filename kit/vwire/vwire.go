// Package vwire is a userspace model of what the kernel does for sx's AF_PACKET socket:
// a write log, a receive queue behind the BPF program sx installed, zero-copy buffer reuse,
// EBADF after close. The test scenario reacts to writes (inject replies, cancel, fail, stall).
//
// It is stdlib only; the BPF program is handed in as a closure by the adapter that replaces
// pkg/packet/afpacket/readwriter.go in cmdwire test binaries.
package vwire

import (
	"errors"
	"sync"
	"syscall"
	"time"
)

type Write struct {
	Frame []byte // copy taken when WritePacketData was entered (as sendto does)
	At    time.Time
	Seq   int // global sequence number over all sockets of the world (1-based)
	Err   error
}

type rxFrame struct {
	data    []byte
	origLen int
	at      time.Time
	err     error // a read that fails (InjectReadError) instead of delivering a frame
}

type Socket struct {
	w        *World
	Index    int
	Iface    string
	VPN      bool
	Filter   string
	SnapLen  int
	run      func([]byte) (int, error)
	mu       sync.Mutex
	cond     *sync.Cond
	queue    []rxFrame
	closed   bool
	Writes   []Write
	OpenedAt time.Time
	ClosedAt time.Time
	FilterAt time.Time
	// statistics
	Offered, Accepted int
	Reads             int
	last              []byte
}

type Scenario struct {
	// OnOpen may refuse the socket.
	OnOpen func(w *World, s *Socket) error
	// OnFilter is called after the filter was installed (socket ready to receive).
	OnFilter func(w *World, s *Socket)
	// OnWrite runs synchronously inside WritePacketData after the frame was logged.
	// A non-nil return value is returned to sx as the write error.
	OnWrite func(w *World, s *Socket, wr *Write) error
	// OnClose runs when sx closes the socket.
	OnClose func(w *World, s *Socket)
}

type World struct {
	mu       sync.Mutex
	Sc       Scenario
	Sockets  []*Socket
	seq      int
	timers   []*time.Timer
	Start    time.Time
	finished bool
}

var (
	curMu   sync.Mutex
	current *World
)

// Install makes w the world that sockets opened from now on belong to (one scan at a time per process).
func Install(w *World) {
	curMu.Lock()
	current = w
	curMu.Unlock()
}

func NewWorld(sc Scenario) *World { return &World{Sc: sc, Start: time.Now()} }

// Finish stops pending timers; later injections are ignored.
func (w *World) Finish() {
	w.mu.Lock()
	w.finished = true
	ts := w.timers
	w.timers = nil
	w.mu.Unlock()
	for _, t := range ts {
		t.Stop()
	}
}

// After runs f after d unless the world finished first.
func (w *World) After(d time.Duration, f func()) {
	w.mu.Lock()
	defer w.mu.Unlock()
	if w.finished {
		return
	}
	w.timers = append(w.timers, time.AfterFunc(d, func() {
		w.mu.Lock()
		fin := w.finished
		w.mu.Unlock()
		if !fin {
			f()
		}
	}))
}

// AllWrites returns every frame written on any socket, in global order.
func (w *World) AllWrites() []Write {
	w.mu.Lock()
	socks := append([]*Socket(nil), w.Sockets...)
	w.mu.Unlock()
	var out []Write
	for _, s := range socks {
		s.mu.Lock()
		out = append(out, s.Writes...)
		s.mu.Unlock()
	}
	// global order by Seq
	for i := 1; i < len(out); i++ {
		for j := i; j > 0 && out[j-1].Seq > out[j].Seq; j-- {
			out[j-1], out[j] = out[j], out[j-1]
		}
	}
	return out
}

func (w *World) SocketList() []*Socket {
	w.mu.Lock()
	defer w.mu.Unlock()
	return append([]*Socket(nil), w.Sockets...)
}

var ErrNoWorld = errors.New("vwire: no virtual wire installed")

// Open is called by the adapter's NewPacketSource.
func Open(iface string, vpn bool) (*Socket, error) {
	curMu.Lock()
	w := current
	curMu.Unlock()
	if w == nil {
		return nil, ErrNoWorld
	}
	s := &Socket{w: w, Iface: iface, VPN: vpn, OpenedAt: time.Now()}
	s.cond = sync.NewCond(&s.mu)
	w.mu.Lock()
	s.Index = len(w.Sockets)
	w.Sockets = append(w.Sockets, s)
	w.mu.Unlock()
	if w.Sc.OnOpen != nil {
		if err := w.Sc.OnOpen(w, s); err != nil {
			s.mu.Lock()
			s.closed = true
			s.ClosedAt = time.Now()
			s.mu.Unlock()
			return nil, err
		}
	}
	return s, nil
}

// SetFilter is called by the adapter once it compiled the filter text sx produced.
func (s *Socket) SetFilter(text string, snaplen int, run func([]byte) (int, error)) {
	s.mu.Lock()
	s.Filter, s.SnapLen, s.run = text, snaplen, run
	s.FilterAt = time.Now()
	s.mu.Unlock()
	if s.w.Sc.OnFilter != nil {
		s.w.Sc.OnFilter(s.w, s)
	}
}

// Inject offers a frame to the socket as if it arrived on the interface. It reports whether the
// installed filter accepted it. Frames offered before a filter is installed are accepted unfiltered
// (as the kernel does between bind and SO_ATTACH_FILTER).
func (s *Socket) Inject(frame []byte) bool {
	s.mu.Lock()
	defer s.mu.Unlock()
	if s.closed {
		return false
	}
	s.Offered++
	keep := len(frame)
	if s.run != nil {
		n, err := s.run(frame)
		if err != nil || n == 0 {
			return false
		}
		if n < keep {
			keep = n
		}
	}
	s.Accepted++
	s.queue = append(s.queue, rxFrame{data: append([]byte(nil), frame[:keep]...), origLen: len(frame), at: time.Now()})
	s.cond.Broadcast()
	return true
}

// InjectReadError makes one read of the socket fail with err (a receive error reported by the kernel, e.g. ENETDOWN
// while the interface flaps). It reports whether the socket was still open.
func (s *Socket) InjectReadError(err error) bool {
	s.mu.Lock()
	defer s.mu.Unlock()
	if s.closed {
		return false
	}
	s.queue = append(s.queue, rxFrame{err: err, at: time.Now()})
	s.cond.Broadcast()
	return true
}

// InjectOpen offers the frame to every socket that is currently open.
func (w *World) InjectOpen(frame []byte) (accepted int) {
	for _, s := range w.SocketList() {
		if s.Inject(frame) {
			accepted++
		}
	}
	return
}

// Pending is the number of accepted frames that sx has not read yet.
func (s *Socket) Pending() int {
	s.mu.Lock()
	defer s.mu.Unlock()
	return len(s.queue)
}

func (s *Socket) IsClosed() bool {
	s.mu.Lock()
	defer s.mu.Unlock()
	return s.closed
}

// Read blocks until a frame is queued or the socket is closed (then EBADF).
func (s *Socket) Read() (data []byte, at time.Time, origLen int, err error) {
	s.mu.Lock()
	defer s.mu.Unlock()
	s.Reads++
	// zero-copy ring: the block returned by the previous call is recycled
	for i := range s.last {
		s.last[i] = 0xA5
	}
	s.last = nil
	for len(s.queue) == 0 && !s.closed {
		s.cond.Wait()
	}
	if s.closed {
		return nil, time.Time{}, 0, syscall.EBADF
	}
	f := s.queue[0]
	s.queue = s.queue[1:]
	if f.err != nil {
		return nil, time.Time{}, 0, f.err
	}
	s.last = f.data
	return f.data, f.at, f.origLen, nil
}

func (s *Socket) Write(pkt []byte) error {
	wr := Write{Frame: append([]byte(nil), pkt...), At: time.Now()}
	s.mu.Lock()
	closed := s.closed
	s.mu.Unlock()
	if closed {
		return syscall.EBADF
	}
	s.w.mu.Lock()
	s.w.seq++
	wr.Seq = s.w.seq
	s.w.mu.Unlock()
	s.mu.Lock()
	s.Writes = append(s.Writes, wr)
	idx := len(s.Writes) - 1
	s.mu.Unlock()
	if s.w.Sc.OnWrite != nil {
		if err := s.w.Sc.OnWrite(s.w, s, &wr); err != nil {
			s.mu.Lock()
			s.Writes[idx].Err = err
			s.mu.Unlock()
			return err
		}
	}
	return nil
}

func (s *Socket) Close() {
	s.mu.Lock()
	if s.closed {
		s.mu.Unlock()
		return
	}
	s.closed = true
	s.ClosedAt = time.Now()
	s.cond.Broadcast()
	s.mu.Unlock()
	if s.w.Sc.OnClose != nil {
		s.w.Sc.OnClose(s.w, s)
	}
}

// Snapshot copies the socket's observable state.
type SocketInfo struct {
	Index              int
	Iface              string
	VPN                bool
	Filter             string
	SnapLen            int
	Writes             []Write
	OpenedAt, ClosedAt time.Time
	Closed             bool
	Offered, Accepted  int
}

func (s *Socket) Info() SocketInfo {
	s.mu.Lock()
	defer s.mu.Unlock()
	return SocketInfo{Index: s.Index, Iface: s.Iface, VPN: s.VPN, Filter: s.Filter, SnapLen: s.SnapLen,
		Writes: append([]Write(nil), s.Writes...), OpenedAt: s.OpenedAt, ClosedAt: s.ClosedAt, Closed: s.closed,
		Offered: s.Offered, Accepted: s.Accepted}
}
