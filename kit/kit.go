// Package verifkit is the harness shared by every generated check: it runs a
// (generator, checker) pair under rapid, through the replay path or over the
// committed corpus, classifies every case and writes per-test statistics that
// the python driver aggregates into the evidence file.
//
// It deliberately imports nothing from sx or gopacket.
package verifkit

import (
	"crypto/sha256"
	"encoding/hex"
	"encoding/json"
	"fmt"
	"os"
	"path/filepath"
	"sort"
	"strings"
	"sync"
	"testing"
	"time"

	"pgregory.net/rapid"
)

// Verdict is what a checker says about one case.
type Verdict struct {
	// Labels classify the case (measured distribution of the generator).
	Labels []string
	// NonTrivial by the rule stated for the test.
	NonTrivial bool
	// Inconclusive: the case could not be decided (e.g. machine too noisy
	// for a timing-sensitive oracle). Never a violation, not an evaluation.
	Inconclusive bool
	// Err != nil is a violation of the property.
	Err error
	// Units is the number of elementary evaluations inside this case
	// (e.g. frames processed); 0 means 1.
	Units int
}

func (v *Verdict) Label(format string, a ...interface{}) {
	v.Labels = append(v.Labels, fmt.Sprintf(format, a...))
}

func (v *Verdict) Failf(format string, a ...interface{}) *Verdict {
	if v.Err == nil {
		v.Err = fmt.Errorf(format, a...)
	}
	return v
}

type collector struct {
	mu           sync.Mutex
	prop, test   string
	rule         string
	evals        int
	units        int
	nontrivial   int
	inconclusive int
	violations   int
	digests      map[[12]byte]struct{}
	labels       map[string]int
	samples      []json.RawMessage
	sampleEvery  int
	exhaustive   bool
	start        time.Time
	extra        map[string]interface{}
}

const maxSamples = 6

func (c *collector) record(cs interface{}, v *Verdict) {
	c.mu.Lock()
	defer c.mu.Unlock()
	if v.Inconclusive {
		c.inconclusive++
		return
	}
	c.evals++
	if v.Units > 0 {
		c.units += v.Units
	} else {
		c.units++
	}
	for _, l := range v.Labels {
		c.labels[l]++
	}
	if v.Err != nil {
		c.violations++
	}
	if !v.NonTrivial {
		return
	}
	c.nontrivial++
	raw, err := json.Marshal(cs)
	if err != nil {
		raw = []byte(fmt.Sprintf("%q", fmt.Sprintf("%+v", cs)))
	}
	sum := sha256.Sum256(raw)
	var d [12]byte
	copy(d[:], sum[:])
	if _, seen := c.digests[d]; seen {
		return
	}
	c.digests[d] = struct{}{}
	// keep the first few and then a thinning sample of distinct non-trivial cases
	n := len(c.digests)
	if len(c.samples) < maxSamples/2 || (n%c.sampleEvery == 0 && len(c.samples) < maxSamples) {
		if len(raw) > 4096 {
			raw, _ = json.Marshal(map[string]interface{}{"truncated_case_json_prefix": string(raw[:2000]), "bytes": len(raw)})
		}
		c.samples = append(c.samples, raw)
		if len(c.samples) >= maxSamples/2 {
			c.sampleEvery *= 4
		}
	}
}

type statFile struct {
	Prop         string                 `json:"prop"`
	Test         string                 `json:"test"`
	Rule         string                 `json:"rule"`
	Evals        int                    `json:"evals"`
	Units        int                    `json:"units"`
	NonTrivial   int                    `json:"nontrivial"`
	Inconclusive int                    `json:"inconclusive"`
	Violations   int                    `json:"violations"`
	Digests      []string               `json:"digests"`
	Labels       map[string]int         `json:"labels"`
	Samples      []json.RawMessage      `json:"samples"`
	Exhaustive   bool                   `json:"exhaustive"`
	WallS        float64                `json:"wall_s"`
	Extra        map[string]interface{} `json:"extra,omitempty"`
}

func (c *collector) flush() {
	dir := os.Getenv("VERIF_STATS_DIR")
	if dir == "" {
		return
	}
	c.mu.Lock()
	defer c.mu.Unlock()
	sf := statFile{Prop: c.prop, Test: c.test, Rule: c.rule, Evals: c.evals, Units: c.units,
		NonTrivial: c.nontrivial, Inconclusive: c.inconclusive, Violations: c.violations,
		Labels: c.labels, Samples: c.samples, Exhaustive: c.exhaustive,
		WallS: time.Since(c.start).Seconds(), Extra: c.extra}
	for d := range c.digests {
		sf.Digests = append(sf.Digests, hex.EncodeToString(d[:]))
	}
	sort.Strings(sf.Digests)
	raw, _ := json.Marshal(sf)
	name := fmt.Sprintf("%s-%d-%d.json", c.test, os.Getpid(), time.Now().UnixNano())
	_ = os.WriteFile(filepath.Join(dir, name), raw, 0o644)
}

// Spec describes one generated check.
type Spec[C any] struct {
	Prop string // property id, e.g. "C04"
	Rule string // how cases are generated and what makes one non-trivial
	Gen  func(t *rapid.T) C
	// Check decides one case. It must be a pure function of the case and the code under test.
	Check func(c C) *Verdict
	// Exhaustive, when set, enumerates a finite space completely in addition to Gen
	// (each yielded case is checked; reported as exhaustive in the evidence).
	Exhaustive func(yield func(C) bool)
}

type replayFile struct {
	Prop    string          `json:"property"`
	Test    string          `json:"test"`
	Message string          `json:"message"`
	Case    json.RawMessage `json:"case"`
}

func writeReplay(prop, test string, cs interface{}, msg string) string {
	dir := os.Getenv("VERIF_REPLAY_DIR")
	if dir == "" {
		return ""
	}
	raw, err := json.Marshal(cs)
	if err != nil {
		raw, _ = json.Marshal(fmt.Sprintf("%+v", cs))
	}
	out, _ := json.MarshalIndent(replayFile{Prop: prop, Test: test, Message: msg, Case: raw}, "", " ")
	p := filepath.Join(dir, fmt.Sprintf("%s-%s.json", prop, test))
	_ = os.WriteFile(p, out, 0o644)
	return p
}

// Journal records the case that is about to run, so that a crash of the whole
// test process (panic in a goroutine of the code under test) leaves a replay file.
func journal(prop, test string, cs interface{}) {
	p := os.Getenv("VERIF_JOURNAL")
	if p == "" {
		return
	}
	raw, err := json.Marshal(cs)
	if err != nil {
		return
	}
	out, _ := json.Marshal(replayFile{Prop: prop, Test: test, Message: "process died while running this case", Case: raw})
	_ = os.WriteFile(p+"."+test, out, 0o644)
}

func safeCheck[C any](check func(C) *Verdict, c C) (v *Verdict) {
	defer func() {
		if r := recover(); r != nil {
			v = &Verdict{NonTrivial: true, Labels: []string{"panic"}, Err: fmt.Errorf("panic: %v", r)}
		}
	}()
	v = check(c)
	if v == nil {
		v = &Verdict{}
	}
	return v
}

// Run executes the spec: replay mode (VERIF_REPLAY=<file> whose "test" field names
// this test), else corpus files (VERIF_CORPUS_DIR/<prop>/*.json for this test), the
// exhaustive enumeration if any, and then rapid with the flags given by the driver.
func Run[C any](t *testing.T, s Spec[C]) {
	test := t.Name()
	col := &collector{prop: s.Prop, test: test, rule: s.Rule, digests: map[[12]byte]struct{}{},
		labels: map[string]int{}, sampleEvery: 1, start: time.Now(), extra: map[string]interface{}{}}
	defer col.flush()

	runOne := func(c C, origin string) {
		journal(s.Prop, test, c)
		v := safeCheck(s.Check, c)
		col.record(c, v)
		if v.Err != nil {
			p := writeReplay(s.Prop, test, c, v.Err.Error())
			t.Fatalf("[%s] property %s violated (%s): %v\nreplay: %s", test, s.Prop, origin, v.Err, p)
		}
	}

	if rp := os.Getenv("VERIF_REPLAY"); rp != "" {
		raw, err := os.ReadFile(rp)
		if err != nil {
			t.Skipf("replay file: %v", err)
		}
		var rf replayFile
		if err := json.Unmarshal(raw, &rf); err != nil {
			t.Fatalf("replay file: %v", err)
		}
		if rf.Test != test {
			t.Skipf("replay file is for %s", rf.Test)
		}
		var c C
		if err := json.Unmarshal(rf.Case, &c); err != nil {
			t.Fatalf("replay case: %v", err)
		}
		runOne(c, "replay "+rp)
		return
	}

	if cd := os.Getenv("VERIF_CORPUS_DIR"); cd != "" {
		files, _ := filepath.Glob(filepath.Join(cd, s.Prop, "*.json"))
		sort.Strings(files)
		for _, f := range files {
			raw, err := os.ReadFile(f)
			if err != nil {
				continue
			}
			var rf replayFile
			if json.Unmarshal(raw, &rf) != nil || rf.Test != test {
				continue
			}
			var c C
			if err := json.Unmarshal(rf.Case, &c); err != nil {
				t.Fatalf("corpus case %s: %v", f, err)
			}
			runOne(c, "corpus "+filepath.Base(f))
			col.mu.Lock()
			col.labels["from-corpus"]++
			col.mu.Unlock()
		}
	}

	if s.Exhaustive != nil {
		complete := true
		s.Exhaustive(func(c C) bool {
			runOne(c, "exhaustive")
			return true
		})
		col.exhaustive = complete
	}

	if s.Gen == nil {
		return
	}
	rapid.Check(t, func(rt *rapid.T) {
		c := s.Gen(rt)
		journal(s.Prop, test, c)
		v := safeCheck(s.Check, c)
		col.record(c, v)
		if v.Inconclusive {
			rt.Skip("inconclusive")
		}
		if v.Err != nil {
			p := writeReplay(s.Prop, test, c, v.Err.Error())
			rt.Fatalf("[%s] property %s violated: %v\nreplay: %s", test, s.Prop, v.Err, p)
		}
	})
}

// Extra attaches a free-form measured value to the stats of the running test.
// (Only used by tests that drive the collector by hand via Manual.)
type Manual struct{ c *collector }

// NewManual is for checks that are not a single rapid property (e.g. full walks):
// they record cases themselves.
func NewManual(t *testing.T, prop, rule string) *Manual {
	m := &Manual{&collector{prop: prop, test: t.Name(), rule: rule, digests: map[[12]byte]struct{}{},
		labels: map[string]int{}, sampleEvery: 1, start: time.Now(), extra: map[string]interface{}{}}}
	t.Cleanup(m.c.flush)
	return m
}

func (m *Manual) Record(t *testing.T, cs interface{}, v *Verdict) {
	m.c.record(cs, v)
	if v.Err != nil {
		p := writeReplay(m.c.prop, m.c.test, cs, v.Err.Error())
		t.Fatalf("[%s] property %s violated: %v\nreplay: %s", m.c.test, m.c.prop, v.Err, p)
	}
}

func (m *Manual) SetExhaustive(b bool) { m.c.mu.Lock(); m.c.exhaustive = b; m.c.mu.Unlock() }
func (m *Manual) Extra(k string, v interface{}) {
	m.c.mu.Lock()
	m.c.extra[k] = v
	m.c.mu.Unlock()
}

// Tier returns "quick" or "thorough" as set by the driver.
func Tier() string {
	if strings.EqualFold(os.Getenv("VERIF_TIER"), "thorough") {
		return "thorough"
	}
	return "quick"
}

// EnvInt reads an integer knob set by the driver.
func EnvInt(name string, def int) int {
	var n int
	if _, err := fmt.Sscanf(os.Getenv(name), "%d", &n); err != nil {
		return def
	}
	return n
}

// EnvStr reads a string knob set by the driver.
func EnvStr(name, def string) string {
	if v, ok := os.LookupEnv(name); ok {
		return v
	}
	return def
}

// Uniform draws an integer in [0,n) with a (nearly) uniform distribution. rapid's
// own integer generators are deliberately biased towards small values, which is
// wrong for "which row / which position" choices. The value is a pure function
// of a rapid draw, so replay and shrinking (towards 0) still work.
func Uniform(t *rapid.T, label string, n int) int {
	if n <= 1 {
		return 0
	}
	x := rapid.Uint64().Draw(t, label)
	if x < uint64(n) { // keeps shrinking meaningful: small raw draws map to themselves
		return int(x)
	}
	x ^= x >> 33
	x *= 0xff51afd7ed558ccd
	x ^= x >> 33
	x *= 0xc4ceb9fe1a85ec53
	x ^= x >> 33
	return int(x % uint64(n))
}

// UniformInt64 draws from [lo,hi] (nearly) uniformly; see Uniform.
func UniformInt64(t *rapid.T, label string, lo, hi int64) int64 {
	if hi <= lo {
		return lo
	}
	span := uint64(hi-lo) + 1
	x := rapid.Uint64().Draw(t, label)
	if span == 0 {
		return int64(x)
	}
	if x < span && x < 64 {
		return lo + int64(x)
	}
	x ^= x >> 33
	x *= 0xff51afd7ed558ccd
	x ^= x >> 33
	x *= 0xc4ceb9fe1a85ec53
	x ^= x >> 33
	return lo + int64(x%span)
}
