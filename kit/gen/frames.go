// Package gen holds rapid generators shared by the checks: frames (valid and mutated),
// target specifications, files. Everything is built constructively from rapid draws.
package gen

import (
	"encoding/binary"

	kit "verifkit"
	"verifkit/wire"

	"pgregory.net/rapid"
)

// FrameOpts steers the valid-frame generator.
type FrameOpts struct {
	Ethernet bool
	// SrcIP, when non-nil, draws the IPv4 source (e.g. inside/outside a target subnet).
	SrcIP func(t *rapid.T) [4]byte
	// SrcPort, when non-nil, draws the source port.
	SrcPort func(t *rapid.T) uint16
	DstIP   [4]byte
	DstMAC  [6]byte
}

func drawIP(t *rapid.T, label string) (a [4]byte) {
	v := uint32(kit.UniformInt64(t, label, 0, 1<<32-1))
	binary.BigEndian.PutUint32(a[:], v)
	return
}

func drawMAC(t *rapid.T, label string) (m [6]byte) {
	switch rapid.IntRange(0, 5).Draw(t, label+"-class") {
	case 0:
		return [6]byte{0xff, 0xff, 0xff, 0xff, 0xff, 0xff}
	case 1:
		return [6]byte{}
	case 2:
		return [6]byte{0xb0, 0xbe, 0x76, byte(rapid.Byte().Draw(t, label)), 1, 2} // a known OUI
	}
	copy(m[:], rapid.SliceOfN(rapid.Byte(), 6, 6).Draw(t, label))
	return
}

func ipOptions(t *rapid.T) []byte {
	switch rapid.IntRange(0, 5).Draw(t, "ipopt") {
	case 0:
		return []byte{1, 1, 1, 1} // NOPs
	case 1:
		return []byte{0x94, 4, 0, 0} // router alert
	case 2:
		return []byte{7, 7, 4, 0, 0, 0, 0, 0} // record route, padded
	case 3:
		n := rapid.IntRange(1, 10).Draw(t, "ipoptwords")
		o := make([]byte, n*4)
		for i := range o {
			o[i] = 1
		}
		return o
	}
	return nil
}

func tcpOptions(t *rapid.T) []byte {
	switch rapid.IntRange(0, 4).Draw(t, "tcpopt") {
	case 0:
		return []byte{2, 4, 5, 0xb4}
	case 1:
		return []byte{2, 4, 5, 0xb4, 4, 2, 8, 10, 0, 0, 0, 1, 0, 0, 0, 2, 1, 3, 3, 7}
	case 2:
		return []byte{1, 1, 1, 1, 1, 1, 1, 1}
	}
	return nil
}

// L4 kinds understood by ValidFrame.
var L4Kinds = []string{"tcp", "udp", "icmp"}

// Desc describes a generated frame for labels and oracles that need the intent.
type Desc struct {
	Kind     string // tcp udp icmp arp ipv6 vlan ipip-<kind> other-proto
	Mutation string // "" for a well-formed frame
}

// IPDatagram builds an IPv4 datagram of the given transport kind.
func IPDatagram(t *rapid.T, kind string, o FrameOpts) []byte {
	var src [4]byte
	if o.SrcIP != nil {
		src = o.SrcIP(t)
	} else {
		src = drawIP(t, "srcip")
	}
	dst := o.DstIP
	var sport uint16
	if o.SrcPort != nil {
		sport = o.SrcPort(t)
	} else {
		sport = uint16(kit.UniformInt64(t, "sport", 0, 65535))
	}
	dport := uint16(kit.UniformInt64(t, "dport", 0, 65535))
	npay := rapid.SampledFrom([]int{0, 0, 1, 7, 48, 200}).Draw(t, "npay")
	payload := rapid.SliceOfN(rapid.Byte(), npay, npay).Draw(t, "payload")
	h := wire.IPv4{ID: rapid.Uint16().Draw(t, "ipid"), Flags: uint8(rapid.SampledFrom([]int{0, 2, 2, 2, 4, 6}).Draw(t, "ipfl")),
		TTL: rapid.Byte().Draw(t, "ttl"), Src: src, Dst: dst, Options: ipOptions(t), TOS: rapid.SampledFrom([]uint8{0, 0, 0x10, 0xb8}).Draw(t, "tos")}
	var l4 []byte
	// "<proto>-short": the datagram ends inside (or right before) the transport header, with consistent lengths;
	// "<proto>-frag": a non-first fragment (offset != 0) carrying arbitrary bytes
	variant := ""
	if i := len(kind) - 6; i > 0 && kind[i:] == "-short" {
		kind, variant = kind[:i], "short"
	} else if i := len(kind) - 5; i > 0 && kind[i:] == "-frag" {
		kind, variant = kind[:i], "frag"
	}
	defer func() { _ = variant }()
	switch kind {
	case "tcp":
		h.Proto = wire.ProtoTCP
		fl := uint16(kit.Uniform(t, "tcpflags", 512))
		if rapid.IntRange(0, 2).Draw(t, "common-flags") == 0 {
			fl = rapid.SampledFrom([]uint16{wire.SYN | wire.ACK, wire.RST | wire.ACK, wire.RST, wire.SYN, wire.ACK, wire.FIN | wire.ACK, wire.SYN | wire.ACK | wire.ECE, wire.SYN | wire.ACK | wire.NS}).Draw(t, "flagset")
		}
		l4 = wire.TCP{SrcPort: sport, DstPort: dport, Seq: rapid.Uint32().Draw(t, "seq"), Ack: rapid.Uint32().Draw(t, "ack"),
			Flags: fl, Window: rapid.Uint16().Draw(t, "win"), Options: tcpOptions(t)}.Bytes(src, dst, payload)
	case "udp":
		h.Proto = wire.ProtoUDP
		l4 = wire.UDP{SrcPort: sport, DstPort: dport}.Bytes(src, dst, payload)
	case "icmp":
		h.Proto = wire.ProtoICMP
		typ := rapid.Byte().Draw(t, "icmptype")
		if rapid.IntRange(0, 2).Draw(t, "common-type") == 0 {
			typ = rapid.SampledFrom([]uint8{0, 3, 8, 11, 13, 14}).Draw(t, "type")
		}
		l4 = wire.ICMP{Type: typ, Code: rapid.Byte().Draw(t, "icmpcode"), ID: rapid.Uint16().Draw(t, "icmpid"), Seq: 1}.Bytes(payload)
	default:
		h.Proto = rapid.SampledFrom([]uint8{0, 2, 41, 47, 50, 132, 255}).Draw(t, "proto")
		l4 = payload
	}
	switch variant {
	case "short":
		hdr := map[string]int{"tcp": 20, "udp": 8, "icmp": 8}[kind]
		if len(l4) > hdr {
			l4 = l4[:hdr]
		}
		l4 = l4[:kit.Uniform(t, "l4keep", len(l4))] // 0 .. header size - 1 bytes of transport header
	case "frag":
		h.FragOff = uint16(1 + kit.Uniform(t, "fragoff", 0x1fff))
		if rapid.Bool().Draw(t, "more-frags") {
			h.Flags |= 1
		}
	}
	return h.Bytes(l4)
}

// ValidFrame builds a well-formed frame of one of the kinds: tcp udp icmp arp ipv6 vlan ipip-tcp ipip-udp ipip-icmp other.
func ValidFrame(t *rapid.T, kind string, o FrameOpts) []byte {
	var body []byte
	etype := uint16(wire.EtherIPv4)
	switch kind {
	case "tcp", "udp", "icmp", "other", "tcp-short", "icmp-short", "udp-short", "tcp-frag", "icmp-frag":
		body = IPDatagram(t, kind, o)
	case "ipip-tcp", "ipip-udp", "ipip-icmp", "ipip-other", "ipip-tcp-short", "ipip-icmp-short", "ipip-udp-short", "ipip-tcp-frag", "ipip-icmp-frag":
		inner := IPDatagram(t, kind[5:], FrameOpts{DstIP: o.DstIP})
		levels := rapid.IntRange(1, 3).Draw(t, "ipip-levels")
		for i := 0; i < levels; i++ {
			var src [4]byte
			if o.SrcIP != nil {
				src = o.SrcIP(t)
			} else {
				src = drawIP(t, "outer-src")
			}
			inner = wire.IPv4{ID: 7, Flags: 2, TTL: 60, Proto: wire.ProtoIPIP, Src: src, Dst: o.DstIP, Options: ipOptions(t)}.Bytes(inner)
		}
		body = inner
	case "arp":
		etype = wire.EtherARP
		var spa [4]byte
		if o.SrcIP != nil {
			spa = o.SrcIP(t)
		} else {
			spa = drawIP(t, "spa")
		}
		sha := drawMAC(t, "sha")
		tha := drawMAC(t, "tha")
		body = wire.ARP{HType: 1, PType: 0x0800, HLen: 6, PLen: 4, Op: uint16(rapid.SampledFrom([]int{2, 2, 2, 1, 3, 9}).Draw(t, "arpop")),
			SHA: sha[:], SPA: spa[:], THA: tha[:], TPA: o.DstIP[:]}.Bytes()
		if rapid.Bool().Draw(t, "arp-padding") {
			body = append(body, make([]byte, 18)...)
		}
	case "ipv6":
		etype = wire.EtherIPv6
		nh := rapid.SampledFrom([]uint8{6, 17, 58}).Draw(t, "nexthdr")
		p := rapid.SliceOfN(rapid.Byte(), 20, 60).Draw(t, "v6payload")
		hdr := make([]byte, 40)
		hdr[0] = 0x60
		binary.BigEndian.PutUint16(hdr[4:], uint16(len(p)))
		hdr[6], hdr[7] = nh, 64
		copy(hdr[8:], rapid.SliceOfN(rapid.Byte(), 32, 32).Draw(t, "v6addrs"))
		body = append(hdr, p...)
	case "vlan":
		etype = wire.EtherVLAN
		inner := IPDatagram(t, rapid.SampledFrom(L4Kinds).Draw(t, "vlan-l4"), o)
		body = append([]byte{0, byte(rapid.IntRange(1, 200).Draw(t, "vid")), 0x08, 0x00}, inner...)
	default:
		panic("gen.ValidFrame: kind " + kind)
	}
	if !o.Ethernet {
		return body
	}
	return append(wire.Eth{Dst: o.DstMAC, Src: drawMAC(t, "eth-src"), Type: etype}.Bytes(), body...)
}

var AllKinds = []string{"tcp", "udp", "icmp", "arp", "ipv6", "vlan", "ipip-tcp", "ipip-udp", "ipip-icmp", "ipip-other", "other"}

// OddKinds are built consistently (lengths and checksums right) but lack a complete transport header: the datagram
// ends inside or before it, or is a non-first fragment - alone or nested in IP-in-IP. For the receive-path check (C06).
var OddKinds = []string{"tcp-short", "icmp-short", "udp-short", "tcp-frag", "icmp-frag",
	"ipip-tcp-short", "ipip-icmp-short", "ipip-udp-short", "ipip-tcp-frag", "ipip-icmp-frag"}

// Mutate applies one structural mutation to a frame (offsets assume the frame starts with an Ethernet header iff ethernet).
// It returns the mutated copy and the name of the operator.
func Mutate(t *rapid.T, frame []byte, ethernet bool) ([]byte, string) {
	f := append([]byte(nil), frame...)
	l3 := 0
	if ethernet {
		l3 = 14
	}
	// in an IP-in-IP chain the mutation applies to a drawn level (outer header, ..., innermost header)
	chain := []int{l3}
	for off := l3; len(f) >= off+20 && f[off]>>4 == 4 && f[off]&0x0f >= 5 && f[off+9] == 4; {
		off += int(f[off]&0x0f) * 4
		if len(f) < off+1 {
			break
		}
		chain = append(chain, off)
	}
	if len(chain) > 1 {
		l3 = chain[kit.Uniform(t, "ip-level", len(chain))]
	}
	has := func(n int) bool { return len(f) >= l3+n }
	ihl := func() int {
		if has(1) {
			return int(f[l3]&0x0f) * 4
		}
		return 20
	}
	ops := []string{"truncate", "ihl", "totlen", "proto", "doff", "frag", "version", "trailing", "flip", "arp-sizes", "ethertype", "random", "arp-htype", "short-l4", "eth-in-eth"}
	op := ops[kit.Uniform(t, "mutation", len(ops))]
	switch op {
	case "truncate":
		if len(f) > 0 {
			f = f[:kit.Uniform(t, "cut", len(f))]
		}
	case "ihl":
		if has(1) {
			f[l3] = f[l3]&0xf0 | byte(rapid.IntRange(0, 15).Draw(t, "ihl"))
		}
	case "totlen":
		if has(4) {
			v := rapid.SampledFrom([]int{0, 1, 19, 20, 21, 24, 27, 28, 39, 40, 41, len(f) - l3 - 1, len(f) - l3 + 1, 65535, -1}).Draw(t, "totlen")
			if v < 0 {
				v = rapid.IntRange(0, 65535).Draw(t, "totlen2")
			}
			binary.BigEndian.PutUint16(f[l3+2:], uint16(v))
		}
	case "proto":
		if has(10) {
			f[l3+9] = rapid.SampledFrom([]uint8{0, 1, 4, 6, 17, 41, 47, 255}).Draw(t, "newproto")
		}
	case "doff":
		if o := l3 + ihl() + 12; len(f) > o {
			f[o] = f[o]&0x0f | byte(rapid.IntRange(0, 15).Draw(t, "doff"))<<4
		}
	case "frag":
		if has(8) {
			v := rapid.SampledFrom([]uint16{0x2000, 0x2001, 0x0001, 0x00b9, 0x1fff, 0x3fff}).Draw(t, "fragbits")
			binary.BigEndian.PutUint16(f[l3+6:], v)
		}
	case "version":
		if has(1) {
			f[l3] = f[l3]&0x0f | byte(rapid.SampledFrom([]int{0, 5, 6, 15}).Draw(t, "ver"))<<4
		}
	case "trailing":
		f = append(f, rapid.SliceOfN(rapid.Byte(), 1, 40).Draw(t, "garbage")...)
	case "flip":
		n := rapid.IntRange(1, 4).Draw(t, "flips")
		for i := 0; i < n && len(f) > 0; i++ {
			f[kit.Uniform(t, "flip-pos", len(f))] ^= byte(1 << uint(rapid.IntRange(0, 7).Draw(t, "bit")))
		}
	case "arp-sizes":
		if has(6) {
			f[l3+4] = rapid.SampledFrom([]uint8{0, 1, 2, 3, 5, 6, 7, 8, 16, 124, 126, 128, 255}).Draw(t, "hlen")
			f[l3+5] = rapid.SampledFrom([]uint8{0, 1, 3, 4, 5, 16, 120, 124, 128, 255}).Draw(t, "plen")
		}
	case "arp-htype":
		if has(4) {
			binary.BigEndian.PutUint16(f[l3:], rapid.SampledFrom([]uint16{0, 6, 0x0800}).Draw(t, "htype"))
			if rapid.Bool().Draw(t, "ptype-too") {
				binary.BigEndian.PutUint16(f[l3+2:], rapid.SampledFrom([]uint16{0x86dd, 0x0806, 0}).Draw(t, "ptype"))
			}
		}
	case "ethertype":
		if ethernet && len(f) >= 14 {
			binary.BigEndian.PutUint16(f[12:], rapid.SampledFrom([]uint16{0x0800, 0x0806, 0x86dd, 0x8100, 0x88cc, 0x0000, 0x05dc, 0x6558, 0x88a8, 0x8847, 0x8864}).Draw(t, "newtype"))
		}
	case "short-l4":
		// keep the IP header, cut inside the transport header
		if o := l3 + ihl(); len(f) > o {
			f = f[:o+kit.Uniform(t, "l4cut", min(len(f)-o, 21))]
		}
	case "eth-in-eth":
		// an outer Ethernet header whose payload is another Ethernet frame (ethertype 0x6558) - the inner one is this
		// frame, this frame with an unknown ethertype, or nothing
		if ethernet {
			outer := []byte{2, 0, 0, 0, 0, 1, 2, 9, 9, 9, 9, 9, 0x65, 0x58}
			inner := append([]byte(nil), f...)
			switch rapid.IntRange(0, 2).Draw(t, "inner") {
			case 1:
				if len(inner) >= 14 {
					inner[12], inner[13] = 0x12, 0x34
				}
			case 2:
				inner = inner[:min(len(inner), 14)]
			}
			f = append(outer, inner...)
		}
	case "random":
		f = rapid.SliceOfN(rapid.Byte(), 0, 100).Draw(t, "random-bytes")
	}
	return f, op
}

func min(a, b int) int {
	if a < b {
		return a
	}
	return b
}
