// nsrun builds a generated network topology inside the (fresh) network namespace it is started in
// (`unshare -n nsrun scenario.json`), runs the real sx binary there and reports, as JSON on stdout, every frame that
// left through each interface, together with sx's exit status and output. Standard library only.
package main

import (
	"bytes"
	"encoding/hex"
	"encoding/json"
	"fmt"
	"net"
	"os"
	"os/exec"
	"strings"
	"sync"
	"sync/atomic"
	"syscall"
	"time"
	"unsafe"
)

type Iface struct {
	Name  string   `json:"name"`
	Kind  string   `json:"kind"`  // veth | tun
	Addrs []string `json:"addrs"` // CIDR, in the order they are added (IPv4 and/or IPv6)
	NoV6  bool     `json:"disable_ipv6"`
	MAC   string   `json:"mac,omitempty"` // veth only: fixed hardware address
}

// Inject: a frame that arrives on an interface right after the n-th (1-based) non-IPv6 frame sx sent through it.
type Inject struct {
	Iface string `json:"iface"`
	After int    `json:"after"`
	Hex   string `json:"hex"`
	// DelayMs: the frame arrives this long after its trigger frame was seen (a late reply)
	DelayMs int `json:"delay_ms,omitempty"`
}

type pending struct {
	b     []byte
	delay time.Duration
}

type Route struct {
	Dst    string `json:"dst,omitempty"` // "" = default
	Dev    string `json:"dev"`
	Via    string `json:"via,omitempty"`
	Metric int64  `json:"metric"`
	Src    string `json:"src,omitempty"` // preferred source address hint ("src" of ip-route)
}

type Scenario struct {
	Ifaces     []Iface  `json:"ifaces"`
	Routes     []Route  `json:"routes"`
	Inject     []Inject `json:"inject"`
	SxBin      string   `json:"sx_bin"`
	SxArgs     []string `json:"sx_args"`
	SxStdin    string   `json:"sx_stdin"`
	CPUList    string   `json:"cpu_list,omitempty"`  // run sx under taskset -c <list>
	SigintMs   int      `json:"sigint_after_ms"`     // live scans: interrupt sx after this long at the latest
	SigintN    int      `json:"sigint_after_frames"` // ... or as soon as this many non-IPv6 frames were captured
	FloodHex   string   `json:"flood_hex"`           // a frame sent to sx's side of FloodIface again and again from the first probe until sx has exited
	FloodIface string   `json:"flood_iface"`
	FloodUs    int      `json:"flood_every_us"`
	TimeoutS   int      `json:"timeout_s"`
}

type IfaceInfo struct {
	Name  string   `json:"name"`
	Index int      `json:"index"`
	MAC   string   `json:"mac"`
	Addrs []string `json:"addrs"` // as net.Interface.Addrs() lists them
}

type Frame struct {
	Iface string `json:"iface"`
	Link  bool   `json:"link_header"` // false: raw IP packet read from a tun device
	Hex   string `json:"hex"`
}

type Report struct {
	Injected   int         `json:"injected"`
	SetupError string      `json:"setup_error,omitempty"`
	Ifaces     []IfaceInfo `json:"ifaces"`
	Frames     []Frame     `json:"frames"`
	Exit       int         `json:"exit"`
	TimedOut   bool        `json:"timed_out"`
	Stdout     string      `json:"stdout"`
	Stderr     string      `json:"stderr"`
	WallMs     int64       `json:"wall_ms"`
	SigintAtMs int64       `json:"sigint_at_ms"` // when sx was interrupted (-1: never)
	KilledBy   string      `json:"killed_by,omitempty"`
}

func ip(args ...string) error {
	out, err := exec.Command("ip", args...).CombinedOutput()
	if err != nil {
		return fmt.Errorf("ip %s: %v: %s", strings.Join(args, " "), err, strings.TrimSpace(string(out)))
	}
	return nil
}

const (
	tunSetIff = 0x400454ca
	iffTun    = 0x0001
	iffNoPi   = 0x1000
)

func openTun(name string) (*os.File, error) {
	// a plain blocking descriptor, attached to the device BEFORE Go sees it (the runtime poller must not register
	// a tun file that is not attached yet)
	fd, err := syscall.Open("/dev/net/tun", syscall.O_RDWR|syscall.O_CLOEXEC, 0)
	if err != nil {
		return nil, err
	}
	var req [40]byte
	copy(req[:15], name)
	*(*uint16)(unsafe.Pointer(&req[16])) = iffTun | iffNoPi
	if _, _, e := syscall.Syscall(syscall.SYS_IOCTL, uintptr(fd), tunSetIff, uintptr(unsafe.Pointer(&req[0]))); e != 0 {
		syscall.Close(fd)
		return nil, e
	}
	return os.NewFile(uintptr(fd), "/dev/net/tun"), nil
}

func htons(v uint16) uint16 { return v<<8 | v>>8 }

func main() {
	rep := &Report{}
	defer func() {
		json.NewEncoder(os.Stdout).Encode(rep)
	}()
	if len(os.Args) < 2 {
		rep.SetupError = "usage: nsrun scenario.json"
		return
	}
	raw, err := os.ReadFile(os.Args[1])
	if err != nil {
		rep.SetupError = err.Error()
		return
	}
	var sc Scenario
	if err := json.Unmarshal(raw, &sc); err != nil {
		rep.SetupError = err.Error()
		return
	}
	fail := func(err error) bool {
		if err != nil && rep.SetupError == "" {
			rep.SetupError = err.Error()
		}
		return err != nil
	}
	if fail(ip("link", "set", "lo", "up")) {
		return
	}
	var mu sync.Mutex
	var stopped bool
	idle := map[string]*int64{} // per capture loop: how often it found nothing to read
	var wg sync.WaitGroup
	_ = &wg
	// whatever happens, never outlive the caller's patience
	go func() {
		time.Sleep(75 * time.Second)
		fmt.Fprintln(os.Stderr, "nsrun: watchdog")
		os.Exit(3)
	}()
	var nonV6 int
	var onCount func()
	add := func(iface string, link bool, b []byte) {
		mu.Lock()
		if !stopped && len(rep.Frames) < 100000 {
			rep.Frames = append(rep.Frames, Frame{Iface: iface, Link: link, Hex: hex.EncodeToString(b)})
		}
		v6 := (link && len(b) >= 14 && b[12] == 0x86 && b[13] == 0xdd) || (!link && len(b) > 0 && b[0]>>4 == 6)
		fire := false
		if !v6 {
			nonV6++
			fire = sc.SigintN > 0 && nonV6 == sc.SigintN && onCount != nil
		}
		mu.Unlock()
		if fire {
			onCount()
		}
	}
	byIface := map[string]map[int][]pending{}
	for _, in := range sc.Inject {
		b, err := hex.DecodeString(in.Hex)
		if err != nil {
			continue
		}
		if byIface[in.Iface] == nil {
			byIface[in.Iface] = map[int][]pending{}
		}
		byIface[in.Iface][in.After] = append(byIface[in.Iface][in.After], pending{b, time.Duration(in.DelayMs) * time.Millisecond})
	}
	var closers []func()
	defer func() { _ = closers }()
	for i, ifc := range sc.Ifaces {
		switch ifc.Kind {
		case "veth":
			peer := fmt.Sprintf("p%d", i)
			if fail(ip("link", "add", ifc.Name, "type", "veth", "peer", "name", peer)) {
				return
			}
			// the peer end never talks IPv6 itself
			os.WriteFile("/proc/sys/net/ipv6/conf/"+peer+"/disable_ipv6", []byte("1"), 0o644)
			if ifc.MAC != "" {
				if fail(ip("link", "set", ifc.Name, "address", ifc.MAC)) {
					return
				}
			}
			if fail(ip("link", "set", peer, "up")) {
				return
			}
			pi, err := net.InterfaceByName(peer)
			if fail(err) {
				return
			}
			fd, err := syscall.Socket(syscall.AF_PACKET, syscall.SOCK_RAW, int(htons(syscall.ETH_P_ALL)))
			if fail(err) {
				return
			}
			if fail(syscall.Bind(fd, &syscall.SockaddrLinklayer{Protocol: htons(syscall.ETH_P_ALL), Ifindex: pi.Index})) {
				return
			}
			syscall.SetsockoptTimeval(fd, syscall.SOL_SOCKET, syscall.SO_RCVTIMEO, &syscall.Timeval{Usec: 20000})
			// sx sends at full speed: a default-sized receive buffer drops frames of larger scans
			syscall.SetsockoptInt(fd, syscall.SOL_SOCKET, 33 /* SO_RCVBUFFORCE */, 16<<20)
			name := ifc.Name
			idleCtr := new(int64)
			idle[name] = idleCtr
			done := make(chan struct{})
			closers = append(closers, func() { close(done) })
			wg.Add(1)
			go func() {
				defer wg.Done()
				defer syscall.Close(fd)
				buf := make([]byte, 65536)
				seen := 0
				for {
					select {
					case <-done:
						return
					default:
					}
					n, from, err := syscall.Recvfrom(fd, buf, 0)
					if err != nil || n <= 0 {
						atomic.AddInt64(idleCtr, 1)
						continue
					}
					// only frames arriving at the peer (i.e. transmitted on the sx side of the pair)
					if ll, ok := from.(*syscall.SockaddrLinklayer); ok && ll.Pkttype == 4 { // PACKET_OUTGOING
						continue
					}
					add(name, true, buf[:n])
					if n >= 14 && !(buf[12] == 0x86 && buf[13] == 0xdd) {
						seen++
						if seen == 1 && sc.FloodHex != "" && sc.FloodIface == name {
							fb, _ := hex.DecodeString(sc.FloodHex)
							go func() {
								for {
									mu.Lock()
									st := stopped
									mu.Unlock()
									if st {
										return
									}
									syscall.Sendto(fd, fb, 0, &syscall.SockaddrLinklayer{Protocol: htons(syscall.ETH_P_ALL), Ifindex: pi.Index})
									time.Sleep(time.Duration(sc.FloodUs) * time.Microsecond)
								}
							}()
						}
						for _, in := range byIface[name][seen] {
							send := func(b []byte) {
								if syscall.Sendto(fd, b, 0, &syscall.SockaddrLinklayer{Protocol: htons(syscall.ETH_P_ALL), Ifindex: pi.Index}) == nil {
									mu.Lock()
									rep.Injected++
									mu.Unlock()
								}
							}
							if in.delay > 0 {
								b := in.b
								time.AfterFunc(in.delay, func() { send(b) })
							} else {
								send(in.b)
							}
						}
					}
				}
			}()
		case "tun":
			f, err := openTun(ifc.Name)
			if fail(err) {
				return
			}
			name := ifc.Name
			// a deep transmit queue: frames sx writes faster than this process reads them must not be dropped by the device
			ip("link", "set", name, "txqueuelen", "20000")
			idleCtr := new(int64)
			idle[name] = idleCtr
			closers = append(closers, func() { f.Close() })
			wg.Add(1)
			go func() {
				defer wg.Done()
				buf := make([]byte, 65536)
				seen := 0
				for {
					var rset syscall.FdSet
					fd := int(f.Fd())
					rset.Bits[fd/64] |= 1 << (uint(fd) % 64)
					if nr, _ := syscall.Select(fd+1, &rset, nil, nil, &syscall.Timeval{Usec: 20000}); nr <= 0 {
						atomic.AddInt64(idleCtr, 1)
						continue
					}
					n, err := f.Read(buf)
					if err != nil {
						// EBADFD while the device is still down: try again shortly
						time.Sleep(2 * time.Millisecond)
						continue
					}
					add(name, false, buf[:n])
					if n > 0 && buf[0]>>4 == 4 {
						seen++
						for _, in := range byIface[name][seen] {
							send := func(b []byte) {
								if _, err := f.Write(b); err == nil {
									mu.Lock()
									rep.Injected++
									mu.Unlock()
								}
							}
							if in.delay > 0 {
								b := in.b
								time.AfterFunc(in.delay, func() { send(b) })
							} else {
								send(in.b)
							}
						}
					}
				}
			}()
		default:
			rep.SetupError = "kind " + ifc.Kind
			return
		}
		if ifc.NoV6 {
			os.WriteFile("/proc/sys/net/ipv6/conf/"+ifc.Name+"/disable_ipv6", []byte("1"), 0o644)
		}
		if fail(ip("link", "set", ifc.Name, "up")) {
			return
		}
		for _, a := range ifc.Addrs {
			args := []string{"addr", "add", a, "dev", ifc.Name}
			if strings.Contains(a, ":") {
				args = []string{"-6", "addr", "add", a, "dev", ifc.Name, "nodad"}
			}
			if fail(ip(args...)) {
				return
			}
		}
	}
	for _, r := range sc.Routes {
		dst := r.Dst
		if dst == "" {
			dst = "default"
		}
		args := []string{"route", "append", dst}
		if r.Via != "" {
			args = append(args, "via", r.Via)
		}
		args = append(args, "dev", r.Dev, "metric", fmt.Sprint(r.Metric))
		if r.Src != "" {
			args = append(args, "src", r.Src)
		}
		if fail(ip(args...)) {
			return
		}
	}
	ifs, _ := net.Interfaces()
	for _, i := range ifs {
		info := IfaceInfo{Name: i.Name, Index: i.Index, MAC: i.HardwareAddr.String()}
		as, _ := i.Addrs()
		for _, a := range as {
			info.Addrs = append(info.Addrs, a.String())
		}
		rep.Ifaces = append(rep.Ifaces, info)
	}
	// let link-state changes and the kernel's own start-up chatter pass, then forget what was captured so far
	time.Sleep(60 * time.Millisecond)
	mu.Lock()
	rep.Frames = nil
	nonV6 = 0
	mu.Unlock()

	t0 := time.Now()
	cmd := exec.Command(sc.SxBin, sc.SxArgs...)
	if sc.CPUList != "" {
		// the scanner pinned to a CPU set (a one-vCPU host): taskset execs sx, so signals reach sx itself
		cmd = exec.Command("taskset", append([]string{"-c", sc.CPUList, sc.SxBin}, sc.SxArgs...)...)
	}
	cmd.Stdin = strings.NewReader(sc.SxStdin)
	var so, se bytes.Buffer
	cmd.Stdout, cmd.Stderr = &so, &se
	if fail(cmd.Start()) {
		return
	}
	waited := make(chan error, 1)
	go func() { waited <- cmd.Wait() }()
	var sigOnce sync.Once
	sigAt := int64(-1)
	interrupt := func() {
		sigOnce.Do(func() {
			atomic.StoreInt64(&sigAt, time.Since(t0).Milliseconds())
			cmd.Process.Signal(syscall.SIGINT)
		})
	}
	if sc.SigintMs > 0 {
		time.AfterFunc(time.Duration(sc.SigintMs)*time.Millisecond, interrupt)
	}
	mu.Lock()
	onCount = interrupt
	mu.Unlock()
	tmo := time.Duration(sc.TimeoutS) * time.Second
	if tmo == 0 {
		tmo = 30 * time.Second
	}
	select {
	case err := <-waited:
		if ee, ok := err.(*exec.ExitError); ok {
			rep.Exit = ee.ExitCode()
			if ws, ok := ee.Sys().(syscall.WaitStatus); ok && ws.Signaled() {
				rep.KilledBy = ws.Signal().String()
			}
		} else if err != nil {
			rep.Exit = -1
		}
	case <-time.After(tmo):
		cmd.Process.Kill()
		<-waited
		rep.TimedOut, rep.Exit = true, -9
	}
	rep.WallMs = time.Since(t0).Milliseconds()
	rep.SigintAtMs = atomic.LoadInt64(&sigAt)
	// drain: every capture loop must have found its socket empty at least twice after sx exited (bounded by 5 s)
	base := map[string]int64{}
	for n, c := range idle {
		base[n] = atomic.LoadInt64(c)
	}
	for deadline := time.Now().Add(5 * time.Second); time.Now().Before(deadline); {
		all := true
		for n, c := range idle {
			if atomic.LoadInt64(c) < base[n]+2 {
				all = false
			}
		}
		if all {
			break
		}
		time.Sleep(5 * time.Millisecond)
	}
	mu.Lock()
	stopped = true
	mu.Unlock()
	rep.Stdout, rep.Stderr = clip(so.String()), clip(se.String())
	// the capture goroutines may sit in blocking reads (a tun fd is not interruptible by Close): do not wait for
	// them - the report is complete, the namespace and all its devices vanish with this process
	mu.Lock()
	json.NewEncoder(os.Stdout).Encode(rep)
	os.Exit(0)
}

func clip(s string) string {
	if len(s) > 20000 {
		return s[:20000] + "...(clipped)"
	}
	return s
}
