// Package shape is the independent reply-shape classifier of C03: which frames a scan must
// report, and as what record. Written from the property statement and the README, on top of
// verifkit/wire (no gopacket, no BPF).
package shape

import (
	"fmt"

	"verifkit/gram"
	"verifkit/wire"
)

// Scan describes what is being scanned on one socket.
type Scan struct {
	Kind     string           // arp | icmp | udp | tcpsyn | tcpfin | tcpnull | tcpxmas | tcpflags
	Ethernet bool             // false: raw-IP (VPN) mode
	Subnet   *gram.Prefix     // nil when no subnet was given (file mode)
	Ports    []gram.PortRange // the ranges of the chunk this socket scans (nil: none given)
	AllPorts []gram.PortRange // every range of the scan (to recognise the "other chunk" don't-care)
}

type Verdict int

const (
	No       Verdict = iota // must not be reported
	Yes                     // must be reported, exactly one record
	DontCare                // the statement leaves it open
)

func inRanges(rs []gram.PortRange, p uint16) bool {
	for _, r := range rs {
		if p >= r.Start && p <= r.End {
			return true
		}
	}
	return false
}

// Classify decides whether the (well-formed, unfragmented) frame is reply-shaped for the scan and
// returns the record it must yield as a canonical key.
func Classify(s Scan, frame []byte) (Verdict, string) {
	f := wire.Decode(frame, s.Ethernet)
	if s.Kind == "arp" {
		a := f.ARP
		if a == nil || a.HType != 1 || a.PType != 0x0800 || a.HLen != 6 || a.PLen != 4 {
			return No, ""
		}
		spa := gram.BytesU32(a.SPA)
		if s.Subnet != nil && !s.Subnet.Contains(spa) {
			return No, ""
		}
		return Yes, fmt.Sprintf("arp|%s|%s", gram.U32String(spa), wire.MACString(a.SHA))
	}
	// IPv4 directly on the link, not nested, not fragmented
	if len(f.IPs) != 1 || f.ARP != nil {
		return No, ""
	}
	ip := f.IPs[0]
	if ip.FragOff != 0 || ip.Flags&1 != 0 {
		return DontCare, "" // fragments are outside the statement
	}
	src := gram.BytesU32(ip.Src[:])
	if s.Subnet != nil && !s.Subnet.Contains(src) {
		return No, ""
	}
	switch s.Kind {
	case "icmp", "udp":
		if f.ICMP == nil {
			return No, ""
		}
		if f.ICMP.Type == 8 {
			return No, ""
		}
		return Yes, fmt.Sprintf("%s|%s|ttl=%d|type=%d|code=%d", s.Kind, wire.IPString(ip.Src), ip.TTL, f.ICMP.Type, f.ICMP.Code)
	}
	// tcp scans
	if f.TCP == nil || f.Stop != "" {
		return No, ""
	}
	t := f.TCP
	v := Yes
	if len(s.Ports) > 0 && !inRanges(s.Ports, t.SrcPort) {
		if inRanges(s.AllPorts, t.SrcPort) {
			v = DontCare // scanned, but by another chunk
		} else {
			return No, ""
		}
	}
	flags := wire.FlagLetters(t.Flags)
	if s.Kind == "tcpsyn" {
		switch t.Flags {
		case wire.SYN | wire.ACK:
		case wire.SYN | wire.ACK | wire.NS:
			v = DontCare // the NS bit lives outside the flags byte
		default:
			return No, ""
		}
		flags = ""
	}
	return v, fmt.Sprintf("%s|%s|%d|%s", s.Kind, wire.IPString(ip.Src), t.SrcPort, flags)
}
