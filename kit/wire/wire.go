// Package wire is a small hand-written encoder/decoder for the frame formats sx
// speaks (Ethernet II, ARP, IPv4, TCP, UDP, ICMPv4). It is the independent side of
// the oracles: it shares no code with gopacket or sx.
package wire

import (
	"encoding/binary"
	"fmt"
)

const (
	EtherIPv4 = 0x0800
	EtherARP  = 0x0806
	EtherIPv6 = 0x86dd
	EtherVLAN = 0x8100

	ProtoICMP = 1
	ProtoIPIP = 4
	ProtoTCP  = 6
	ProtoUDP  = 17
)

// TCP flag bits as they sit in bytes 12..13 of the TCP header (9 bits).
const (
	FIN = 1 << iota
	SYN
	RST
	PSH
	ACK
	URG
	ECE
	CWR
	NS
)

// Checksum is the RFC 1071 internet checksum of data (odd length padded with a zero byte),
// starting from the partial sum init.
func Checksum(data []byte, init uint32) uint16 {
	sum := init
	for i := 0; i+1 < len(data); i += 2 {
		sum += uint32(data[i])<<8 | uint32(data[i+1])
	}
	if len(data)%2 == 1 {
		sum += uint32(data[len(data)-1]) << 8
	}
	for sum>>16 != 0 {
		sum = sum&0xffff + sum>>16
	}
	return ^uint16(sum)
}

func pseudoSum(src, dst [4]byte, proto uint8, length int) uint32 {
	var s uint32
	s += uint32(src[0])<<8 | uint32(src[1])
	s += uint32(src[2])<<8 | uint32(src[3])
	s += uint32(dst[0])<<8 | uint32(dst[1])
	s += uint32(dst[2])<<8 | uint32(dst[3])
	s += uint32(proto)
	s += uint32(length)
	return s
}

// TransportChecksum computes the TCP/UDP checksum of segment (whose checksum field must be zeroed by the caller
// or will be treated as data) under the IPv4 pseudo header.
func TransportChecksum(src, dst [4]byte, proto uint8, segment []byte) uint16 {
	return Checksum(segment, pseudoSum(src, dst, proto, len(segment)))
}

// ---------------------------------------------------------------------------- encoding

type Eth struct {
	Dst, Src [6]byte
	Type     uint16
}

func (e Eth) Bytes() []byte {
	b := make([]byte, 14)
	copy(b[0:6], e.Dst[:])
	copy(b[6:12], e.Src[:])
	binary.BigEndian.PutUint16(b[12:], e.Type)
	return b
}

type ARP struct {
	HType, PType uint16
	HLen, PLen   uint8
	Op           uint16
	SHA, SPA     []byte
	THA, TPA     []byte
}

func (a ARP) Bytes() []byte {
	b := make([]byte, 8, 8+len(a.SHA)+len(a.SPA)+len(a.THA)+len(a.TPA))
	binary.BigEndian.PutUint16(b[0:], a.HType)
	binary.BigEndian.PutUint16(b[2:], a.PType)
	b[4], b[5] = a.HLen, a.PLen
	binary.BigEndian.PutUint16(b[6:], a.Op)
	b = append(b, a.SHA...)
	b = append(b, a.SPA...)
	b = append(b, a.THA...)
	b = append(b, a.TPA...)
	return b
}

// IPv4 describes a header to build. Zero-valued override fields mean "compute".
type IPv4 struct {
	Version  uint8 // 0 => 4
	IHL      uint8 // 0 => computed from Options
	TOS      uint8
	TotalLen uint16 // 0 => computed, unless RawTotalLen
	ID       uint16
	Flags    uint8  // 3 bits: evil(4) DF(2) MF(1)
	FragOff  uint16 // 13 bits
	TTL      uint8
	Proto    uint8
	Src, Dst [4]byte
	Options  []byte // padded to a multiple of 4 by the builder
	// overrides
	RawTotalLen bool   // use TotalLen verbatim even if 0
	BadChecksum bool   // leave a wrong checksum
	Checksum    uint16 // filled by Decode
}

func (h IPv4) Bytes(payload []byte) []byte {
	opts := append([]byte(nil), h.Options...)
	for len(opts)%4 != 0 {
		opts = append(opts, 0)
	}
	ihl := h.IHL
	if ihl == 0 {
		ihl = uint8(5 + len(opts)/4)
	}
	ver := h.Version
	if ver == 0 {
		ver = 4
	}
	b := make([]byte, 20, 20+len(opts)+len(payload))
	b[0] = ver<<4 | ihl&0x0f
	b[1] = h.TOS
	tl := h.TotalLen
	if tl == 0 && !h.RawTotalLen {
		tl = uint16(20 + len(opts) + len(payload))
	}
	binary.BigEndian.PutUint16(b[2:], tl)
	binary.BigEndian.PutUint16(b[4:], h.ID)
	binary.BigEndian.PutUint16(b[6:], uint16(h.Flags&7)<<13|h.FragOff&0x1fff)
	b[8] = h.TTL
	b[9] = h.Proto
	copy(b[12:16], h.Src[:])
	copy(b[16:20], h.Dst[:])
	b = append(b, opts...)
	cs := Checksum(b, 0)
	if h.BadChecksum {
		cs ^= 0x5555
	}
	binary.BigEndian.PutUint16(b[10:], cs)
	return append(b, payload...)
}

type TCP struct {
	SrcPort, DstPort uint16
	Seq, Ack         uint32
	DataOff          uint8  // 0 => computed
	Flags            uint16 // 9 bits
	Window           uint16
	Urgent           uint16
	Options          []byte
	Checksum         uint16 // filled by Decode
}

func (t TCP) Bytes(src, dst [4]byte, payload []byte) []byte {
	opts := append([]byte(nil), t.Options...)
	for len(opts)%4 != 0 {
		opts = append(opts, 0)
	}
	off := t.DataOff
	if off == 0 {
		off = uint8(5 + len(opts)/4)
	}
	b := make([]byte, 20, 20+len(opts)+len(payload))
	binary.BigEndian.PutUint16(b[0:], t.SrcPort)
	binary.BigEndian.PutUint16(b[2:], t.DstPort)
	binary.BigEndian.PutUint32(b[4:], t.Seq)
	binary.BigEndian.PutUint32(b[8:], t.Ack)
	b[12] = off<<4 | uint8(t.Flags>>8)&1
	b[13] = uint8(t.Flags)
	binary.BigEndian.PutUint16(b[14:], t.Window)
	binary.BigEndian.PutUint16(b[18:], t.Urgent)
	b = append(b, opts...)
	b = append(b, payload...)
	binary.BigEndian.PutUint16(b[16:], TransportChecksum(src, dst, ProtoTCP, b))
	return b
}

type UDP struct {
	SrcPort, DstPort uint16
	Length           uint16 // 0 => computed
	Checksum         uint16
}

func (u UDP) Bytes(src, dst [4]byte, payload []byte) []byte {
	b := make([]byte, 8, 8+len(payload))
	binary.BigEndian.PutUint16(b[0:], u.SrcPort)
	binary.BigEndian.PutUint16(b[2:], u.DstPort)
	l := u.Length
	if l == 0 {
		l = uint16(8 + len(payload))
	}
	binary.BigEndian.PutUint16(b[4:], l)
	b = append(b, payload...)
	cs := TransportChecksum(src, dst, ProtoUDP, b)
	if cs == 0 {
		cs = 0xffff
	}
	binary.BigEndian.PutUint16(b[6:], cs)
	return b
}

type ICMP struct {
	Type, Code uint8
	ID, Seq    uint16 // "rest of header"
	Checksum   uint16
}

func (c ICMP) Bytes(payload []byte) []byte {
	b := make([]byte, 8, 8+len(payload))
	b[0], b[1] = c.Type, c.Code
	binary.BigEndian.PutUint16(b[4:], c.ID)
	binary.BigEndian.PutUint16(b[6:], c.Seq)
	b = append(b, payload...)
	binary.BigEndian.PutUint16(b[2:], Checksum(b, 0))
	return b
}

// ---------------------------------------------------------------------------- decoding

// Frame is the strict decode of a byte string. Each header is present only if it is complete
// in the given bytes; decoding stops at the first thing that is not, and Stop says why.
type Frame struct {
	Link    bool // had an Ethernet header (false in raw-IP mode)
	Eth     Eth
	ARP     *ARP
	IPs     []IPv4 // outermost first (IP-in-IP nesting)
	IPOff   []int  // byte offset of each IPv4 header in the frame
	IPEnd   []int  // end offset (header offset + min(total length, available))
	TCP     *TCP
	UDP     *UDP
	ICMP    *ICMP
	L4Off   int    // byte offset of the transport header
	Payload []byte // transport payload (bounded by the IP total length)
	Stop    string
}

// InnerIP returns the IPv4 header that directly carries the transport header.
func (f *Frame) InnerIP() *IPv4 {
	if len(f.IPs) == 0 {
		return nil
	}
	return &f.IPs[len(f.IPs)-1]
}

// Decode parses data. ethernet=false means the bytes start at the IPv4 header (VPN / raw-IP mode).
func Decode(data []byte, ethernet bool) *Frame {
	f := &Frame{Link: ethernet}
	off := 0
	etype := uint16(EtherIPv4)
	if ethernet {
		if len(data) < 14 {
			f.Stop = "short ethernet header"
			return f
		}
		copy(f.Eth.Dst[:], data[0:6])
		copy(f.Eth.Src[:], data[6:12])
		f.Eth.Type = binary.BigEndian.Uint16(data[12:14])
		etype = f.Eth.Type
		off = 14
	}
	switch etype {
	case EtherARP:
		d := data[off:]
		if len(d) < 8 {
			f.Stop = "short arp header"
			return f
		}
		a := &ARP{HType: binary.BigEndian.Uint16(d[0:]), PType: binary.BigEndian.Uint16(d[2:]), HLen: d[4], PLen: d[5],
			Op: binary.BigEndian.Uint16(d[6:])}
		need := 8 + 2*int(a.HLen) + 2*int(a.PLen)
		if len(d) < need {
			f.Stop = "short arp body"
			return f
		}
		p := 8
		a.SHA = d[p : p+int(a.HLen)]
		p += int(a.HLen)
		a.SPA = d[p : p+int(a.PLen)]
		p += int(a.PLen)
		a.THA = d[p : p+int(a.HLen)]
		p += int(a.HLen)
		a.TPA = d[p : p+int(a.PLen)]
		f.ARP = a
		return f
	case EtherIPv4:
	default:
		f.Stop = fmt.Sprintf("ethertype %#04x", etype)
		return f
	}
	end := len(data)
	for depth := 0; ; depth++ {
		d := data[off:end]
		if len(d) < 20 {
			f.Stop = "short ipv4 header"
			return f
		}
		var h IPv4
		h.Version = d[0] >> 4
		h.IHL = d[0] & 0x0f
		h.TOS = d[1]
		h.TotalLen = binary.BigEndian.Uint16(d[2:])
		h.ID = binary.BigEndian.Uint16(d[4:])
		ff := binary.BigEndian.Uint16(d[6:])
		h.Flags = uint8(ff >> 13)
		h.FragOff = ff & 0x1fff
		h.TTL = d[8]
		h.Proto = d[9]
		h.Checksum = binary.BigEndian.Uint16(d[10:])
		copy(h.Src[:], d[12:16])
		copy(h.Dst[:], d[16:20])
		if h.IHL < 5 {
			f.Stop = "ihl < 5"
			return f
		}
		hl := int(h.IHL) * 4
		if len(d) < hl {
			f.Stop = "ipv4 options truncated"
			return f
		}
		h.Options = d[20:hl]
		f.IPs = append(f.IPs, h)
		f.IPOff = append(f.IPOff, off)
		thisEnd := end
		if tl := int(h.TotalLen); tl >= hl && off+tl < end {
			thisEnd = off + tl
		}
		f.IPEnd = append(f.IPEnd, thisEnd)
		if h.FragOff != 0 {
			f.Stop = "non-first fragment"
			return f
		}
		off += hl
		end = thisEnd
		if h.Proto == ProtoIPIP && depth < 8 {
			continue
		}
		break
	}
	ip := f.InnerIP()
	d := data[off:end]
	f.L4Off = off
	switch ip.Proto {
	case ProtoTCP:
		if len(d) < 20 {
			f.Stop = "short tcp header"
			return f
		}
		t := &TCP{SrcPort: binary.BigEndian.Uint16(d[0:]), DstPort: binary.BigEndian.Uint16(d[2:]),
			Seq: binary.BigEndian.Uint32(d[4:]), Ack: binary.BigEndian.Uint32(d[8:]), DataOff: d[12] >> 4,
			Flags: uint16(d[12]&1)<<8 | uint16(d[13]), Window: binary.BigEndian.Uint16(d[14:]),
			Checksum: binary.BigEndian.Uint16(d[16:]), Urgent: binary.BigEndian.Uint16(d[18:])}
		f.TCP = t
		hl := int(t.DataOff) * 4
		if hl >= 20 && hl <= len(d) {
			t.Options = d[20:hl]
			f.Payload = d[hl:]
		} else {
			f.Stop = "bad tcp data offset"
		}
	case ProtoUDP:
		if len(d) < 8 {
			f.Stop = "short udp header"
			return f
		}
		f.UDP = &UDP{SrcPort: binary.BigEndian.Uint16(d[0:]), DstPort: binary.BigEndian.Uint16(d[2:]),
			Length: binary.BigEndian.Uint16(d[4:]), Checksum: binary.BigEndian.Uint16(d[6:])}
		f.Payload = d[8:]
	case ProtoICMP:
		if len(d) < 8 {
			f.Stop = "short icmp header"
			return f
		}
		f.ICMP = &ICMP{Type: d[0], Code: d[1], Checksum: binary.BigEndian.Uint16(d[2:]),
			ID: binary.BigEndian.Uint16(d[4:]), Seq: binary.BigEndian.Uint16(d[6:])}
		f.Payload = d[8:]
	default:
		f.Stop = fmt.Sprintf("ip protocol %d", ip.Proto)
	}
	return f
}

// VerifyIPChecksum recomputes the checksum of the i-th IPv4 header of the frame.
func VerifyIPChecksum(data []byte, f *Frame, i int) bool {
	off := f.IPOff[i]
	hl := int(f.IPs[i].IHL) * 4
	return Checksum(data[off:off+hl], 0) == 0
}

// VerifyL4Checksum recomputes the transport checksum of a decoded frame over the bytes the
// innermost IPv4 header says belong to it.
func VerifyL4Checksum(data []byte, f *Frame) bool {
	ip := f.InnerIP()
	if ip == nil {
		return false
	}
	seg := data[f.L4Off:f.IPEnd[len(f.IPEnd)-1]]
	switch {
	case f.TCP != nil:
		return Checksum(seg, pseudoSum(ip.Src, ip.Dst, ProtoTCP, len(seg))) == 0
	case f.UDP != nil:
		if f.UDP.Checksum == 0 {
			return true // "no checksum" is legal for UDP over IPv4
		}
		return Checksum(seg, pseudoSum(ip.Src, ip.Dst, ProtoUDP, len(seg))) == 0
	case f.ICMP != nil:
		return Checksum(seg, 0) == 0
	}
	return false
}

// FlagLetters renders TCP flags in the order sx documents: s a f r p u e c n.
func FlagLetters(flags uint16) string {
	out := ""
	for _, p := range []struct {
		bit uint16
		c   string
	}{{SYN, "s"}, {ACK, "a"}, {FIN, "f"}, {RST, "r"}, {PSH, "p"}, {URG, "u"}, {ECE, "e"}, {CWR, "c"}, {NS, "n"}} {
		if flags&p.bit != 0 {
			out += p.c
		}
	}
	return out
}

func IPString(a [4]byte) string { return fmt.Sprintf("%d.%d.%d.%d", a[0], a[1], a[2], a[3]) }

func MACString(m []byte) string {
	s := ""
	for i, b := range m {
		if i > 0 {
			s += ":"
		}
		s += fmt.Sprintf("%02x", b)
	}
	return s
}
